#!/bin/bash
# MANIFEST.setup_cmd — idempotent, offline.  Builds the overlay venv /verif/.venv:
# the repository's own interpreter (/venv, CPython 3.12) + z3-solver + crosshair-tool
# from the local wheelhouse.  Nothing is fetched from a network.
set -euo pipefail
cd "$(dirname "$0")"
VENV=/verif/.venv
STAMP=$VENV/.ok
if [ -f "$STAMP" ] && "$VENV/bin/python" -c 'import z3, crosshair' 2>/dev/null; then
  exit 0
fi
rm -rf "$VENV"
/venv/bin/python -m venv "$VENV"
SP=$("$VENV/bin/python" -c 'import sysconfig; print(sysconfig.get_paths()["purelib"])')
# make /venv's site-packages (pytest, prometheus-free deps of the repo, the editable install) visible
echo "import site; site.addsitedir('/venv/lib/python3.12/site-packages')" > "$SP/_verif_overlay.pth"
PIP_NO_INDEX=1 "$VENV/bin/python" -m pip install -q --no-index --find-links /opt/veriftools/wheels \
    z3-solver crosshair-tool jsonschema >/dev/null
"$VENV/bin/python" -c 'import z3, crosshair; print("z3", z3.get_version_string())'
touch "$STAMP"
