"""./check entry point: runs one property's checks, writes evidence, applies known findings."""
from __future__ import annotations

import argparse
import hashlib
import importlib
import json
import os
import subprocess
import sys
import time

ROOT = os.path.dirname(os.path.dirname(os.path.abspath(__file__)))
KNOWN = os.path.join(ROOT, "known_findings.json")


def load_known():
    try:
        with open(KNOWN) as f:
            return json.load(f).get("findings", [])
    except FileNotFoundError:
        return []


def item_key(agg):
    ps = ",".join("%s=%s" % (k, agg["params"][k]) for k in sorted(agg["params"]))
    return "%s[%s]" % (agg["scenario"], ps)


def match_known(known, prop, key, info):
    for k in known:
        if k.get("property") != prop or k.get("status") != "open":
            continue
        if k.get("key") == key:
            return k
        kp = k.get("key_prefix")
        if kp and key.startswith(kp) and (not k.get("label") or key.endswith("/" + k["label"])):
            m = k.get("info_contains")
            if m and m not in (info or ""):
                continue
            return k
    return None


def main(argv=None):
    ap = argparse.ArgumentParser()
    ap.add_argument("prop")
    ap.add_argument("--tier", default=os.environ.get("VERIF_TIER", "quick"), choices=["quick", "thorough"])
    ap.add_argument("--replay")
    ap.add_argument("--selftest", action="store_true")
    ap.add_argument("--budget", type=float)
    ap.add_argument("--workers", type=int)
    ap.add_argument("--only")
    ap.add_argument("--no-x", action="store_true")
    ap.add_argument("-v", action="store_true")
    a = ap.parse_args(argv)
    prop = a.prop.upper()
    seed = int(os.environ.get("VERIF_SEED", "0") or 0)
    if a.replay:
        env = dict(os.environ)
        try:
            m_ = importlib.import_module("vf.harness.%s" % prop.lower())
            env.update(getattr(m_, "WORKER_ENV", {}) or {})
        except ImportError:
            pass
        env["PYTHONPATH"] = ROOT + os.pathsep + env.get("PYTHONPATH", "")
        r = subprocess.call([sys.executable, "-m", "vf.engine.replay", a.replay], cwd=ROOT, env=env)
        return r
    if a.selftest:
        return subprocess.call([sys.executable, os.path.join(ROOT, "tools", "selftest.py"), "--all-checks" if prop == "ALL" else prop], cwd=ROOT)
    t0 = time.monotonic()
    mod = importlib.import_module("vf.harness.%s" % prop.lower())
    from vf.engine import pool
    items = mod.plan(a.tier, seed)
    if a.only:
        items = [it for it in items if a.only in it["scenario"] or a.only in json.dumps(it.get("params", {})) or a.only in json.dumps(it.get("bounds", {}))]
    if os.environ.get("VERIF_TWIN"):
        # vacuity self-test: every program must reach its end (reported as a violation of 'twin-end-reached')
        for it in items:
            it["bounds"] = dict(it.get("bounds", {}), twin=True, P=0)
    budget = a.budget or getattr(mod, "BUDGET", {}).get(a.tier, 60.0 if a.tier == "quick" else 600.0)
    xres = None
    xproc = None
    if hasattr(mod, "contracts") and not a.no_x:
        from vf.engine import xhair
        xproc = xhair.start(mod, a.tier, seed)
    aggs = pool.run_plan(prop.lower(), items, nworkers=a.workers, time_budget=budget, env=getattr(mod, "WORKER_ENV", None)) if items else []
    if xproc is not None:
        xres = xproc.finish()
    if hasattr(mod, "enumerations"):
        # plain-CPython enumerations (explicitly NOT solver verdicts; see DESIGN), merged like engine X
        from vf.engine import xhair
        if xres is None:
            xres = dict(coverage=dict(conditions=0, confirmed=0, refuted=0, inconclusive=0, obligations=0, discharged=0,
                                      per_condition=[]), violations=[], inconclusive_lines=[], errors=[], samples=[])
        for en in mod.enumerations(a.tier):
            pr = subprocess.run([sys.executable, "-m", en["module"]], capture_output=True, text=True, env=xhair._env(), cwd=ROOT, timeout=600)
            try:
                res = json.loads(pr.stdout.strip().splitlines()[-1])
            except Exception:  # noqa
                xres["errors"].append("enumeration %s failed: %s" % (en["module"], (pr.stderr or pr.stdout)[-400:]))
                continue
            xres["coverage"].setdefault("enumerations", []).append(dict(module=en["module"], evaluations=res["evaluations"],
                                                                          operations=res.get("operations"), note=en.get("note", "")))
            for v in res["violations"]:
                xres["violations"].append(dict(name="T:" + v["name"], info=v["info"], file=None, func=None, call=None, enumeration=en["module"]))
    wall = time.monotonic() - t0
    return report(prop, a.tier, seed, mod, aggs, xres, wall, verbose=a.v)


def report(prop, tier, seed, mod, aggs, xres, wall, verbose=False):
    known = load_known()
    viol_lines = []
    known_lines = {}
    incon_lines = []
    harness_errors = []
    REPLAYS = os.environ.get("VERIF_REPLAY_DIR") or os.path.join(ROOT, "replays")
    os.makedirs(os.path.join(REPLAYS, prop), exist_ok=True)
    tot = dict(paths=0, obligations=0, discharged=0, inconclusive=0, states=0, transitions=0,
               solver_s=0.0, solver_calls=0, sym_branches=0, unexplored=0)
    funcs = set()
    reach = {}
    samples = []
    per_item = []
    exhaustive = True
    n_viol = 0
    for agg in aggs:
        ik = item_key(agg)
        for k in tot:
            tot[k] += agg.get(k, 0)
        funcs.update(agg["funcs"])
        for k, v in agg["reach"].items():
            reach[ik + ":" + k] = v
        exhaustive = exhaustive and agg["exhaustive"]
        for s_ in agg["samples"][:1]:
            samples.append({"program": ik, "bounds": agg["bounds"], **s_})
        per_item.append({"program": ik, "bounds": agg["bounds"], "paths": agg["paths"],
                         "obligations": agg["obligations"], "discharged": agg["discharged"],
                         "exhaustive": agg["exhaustive"], "unexplored_prefixes": agg["unexplored"],
                         "max_preemptions_used": agg["max_preempt"],
                         "labels": agg["labels"], "infeasible_paths": agg["infeasible"]})
        if agg.get("lpredict"):
            lp_tot = per_item[-1]["lock_order_prediction"] = dict(agg["lpredict"], unreproduced_cycles=agg.get("inconclusive_cycles", []))
        if agg["fatal"] or agg["errors"]:
            for e in agg["fatal"][:2]:
                harness_errors.append("%s: %s" % (ik, e[-800:]))
            for e in agg["errors"][:2]:
                harness_errors.append("%s: %s" % (ik, e["error"][-800:]))
        if agg["divergences"]:
            incon_lines.append("INCONCLUSIVE %s: %d diverged re-executions" % (ik, agg["divergences"]))
            if agg["divergences"] > max(2, 0.005 * max(1, agg["paths"])):
                harness_errors.append("%s: %d divergences in %d paths" % (ik, agg["divergences"], agg["paths"]))
        if agg["step_limits"]:
            incon_lines.append("INCONCLUSIVE %s: %d paths hit the step limit" % (ik, agg["step_limits"]))
        if agg["inconclusive"]:
            incon_lines.append("INCONCLUSIVE %s: %d obligations undecided by the solver" % (ik, agg["inconclusive"]))
        if agg["unexplored"]:
            incon_lines.append("INCONCLUSIVE %s: budget exhausted, %d prefixes unexplored" % (ik, agg["unexplored"]))
        seen = set()
        for v in agg["violations"]:
            key = "%s/%s/%s" % (prop, ik, v["label"])
            kf = match_known(known, prop, key, v.get("info"))
            if not v.get("confirmed"):
                if kf is None:
                    harness_errors.append("unconfirmed counterexample %s (%s) replay_error=%s diverged=%s" % (
                        key, v.get("info"), (v.get("replay_error") or "")[-300:], v.get("replay_diverged")))
                continue
            if key in seen:
                continue
            seen.add(key)
            if kf is not None:
                known_lines[kf.get("id", key)] = "KNOWN-FINDING: property=%s %s [%s]" % (prop, kf.get("what", ""), kf.get("id", ""))
                continue
            n_viol += 1
            h = hashlib.sha1(key.encode()).hexdigest()[:10]
            path = os.path.join(REPLAYS, prop, "%s.json" % h)
            with open(path, "w") as f:
                json.dump({"property": prop, "harness": prop.lower(), "scenario": agg["scenario"],
                           "params": agg["params"], "bounds": dict(agg["bounds"], **(v.get("replay_bounds") or {})), "label": v["label"],
                           "info": v.get("info"), "model": v.get("model"), "decisions": v["decisions"],
                           "key": key, "log": v.get("log")}, f, indent=1, default=str)
            viol_lines.append("VIOLATION property=%s replay=%s" % (prop, path))
            print("  violated: %s  info=%s model=%s" % (key, v.get("info"), json.dumps(v.get("model"))[:300]))
    # engine X results
    xcov = None
    if xres is not None:
        xcov = xres["coverage"]
        tot["obligations"] += xcov["obligations"]
        tot["discharged"] += xcov["discharged"]
        for l in xres["inconclusive_lines"]:
            incon_lines.append(l)
        for v in xres["violations"]:
            key = "%s/X/%s" % (prop, v["name"])
            kf = match_known(known, prop, key, v.get("info"))
            if kf is not None:
                known_lines[kf.get("id", key)] = "KNOWN-FINDING: property=%s %s [%s]" % (prop, kf.get("what", ""), kf.get("id", ""))
                continue
            n_viol += 1
            h = hashlib.sha1(key.encode()).hexdigest()[:10]
            path = os.path.join(REPLAYS, prop, "%s.json" % h)
            with open(path, "w") as f:
                json.dump({"property": prop, "engine": "X", "key": key, **v}, f, indent=1, default=str)
            viol_lines.append("VIOLATION property=%s replay=%s" % (prop, path))
            print("  violated: %s  %s" % (key, str(v.get("info"))[:400]))
        harness_errors.extend(xres.get("errors", []))
        samples.extend(xres.get("samples", [])[:2])
    # second opinion: a sample of the discharged obligations re-decided by independent solvers
    cross = crosscheck([x for agg in aggs for x in agg.get("smt", [])][:12])
    for l in cross["lines"]:
        incon_lines.append(l)
    # reachability (vacuity) guard
    need = getattr(mod, "MUST_REACH", {}).get(tier, getattr(mod, "MUST_REACH", {}).get("*", []))
    for r_ in need:
        if not any(k.endswith(":" + r_) and v > 0 for k, v in reach.items()):
            incon_lines.append("INCONCLUSIVE reachability: no explored path reached '%s'" % r_)
    level = getattr(mod, "LEVEL", "model_checking")
    cov = {
        "states": max(1, tot["states"]) if aggs else 0,
        "transitions": max(1, tot["transitions"]) if aggs else 0,
        "traces_validated_against_impl": tot["paths"],
        "samples": samples or [{"note": "no S paths"}],
        "obligations": tot["obligations"],
        "discharged": tot["discharged"],
        "inconclusive": tot["inconclusive"],
        "paths": tot["paths"],
        "symbolic_branches_decided_by_z3": tot["sym_branches"],
        "solver_calls": tot["solver_calls"],
        "solver_s": round(tot["solver_s"], 3),
        "unexplored_prefixes": tot["unexplored"],
        "exhaustive": bool(exhaustive and not incon_lines),
        "programs": len(per_item),
        "program_details": per_item,
        "reachability": reach,
        "functions_executed": sorted(funcs),
        "known_findings_seen": sorted(known_lines),
        "explanation": getattr(mod, "EXPLANATION", ""),
        "bounds": getattr(mod, "BOUNDS_TEXT", {}).get(tier, ""),
        "second_solver": cross["summary"],
    }
    if xcov is not None:
        cov["crosshair"] = xcov
    if level != "model_checking" or not aggs:
        cov["evaluations"] = max(1, tot["paths"] + (xcov["conditions"] if xcov else 0))
        cov["distinct_nontrivial"] = max(2, tot["paths"] + (xcov["confirmed"] if xcov else 0))
        cov["rule"] = "one evaluation per explored path / CrossHair condition; all are distinct decision vectors"
    ev = {
        "property_id": prop, "tier": tier, "seed": seed, "level": level, "coverage": cov,
        "assumptions": getattr(mod, "ASSUMPTIONS", []) + COMMON_ASSUMPTIONS,
        "wall_s": round(wall, 2), "violations": n_viol,
    }
    EVD = os.environ.get("VERIF_EVIDENCE_DIR") or os.path.join(ROOT, "evidence")
    os.makedirs(EVD, exist_ok=True)
    with open(os.path.join(EVD, "%s.json" % prop), "w") as f:
        json.dump(ev, f, indent=1, default=str)
    print("%s %s: paths=%d obligations=%d discharged=%d sym_branches=%d solver=%.1fs wall=%.1fs exhaustive=%s" % (
        prop, tier, tot["paths"], tot["obligations"], tot["discharged"], tot["sym_branches"],
        tot["solver_s"], wall, cov["exhaustive"]))
    if verbose:
        for pi in per_item:
            print("  ", pi["program"], pi["bounds"], "paths", pi["paths"], "exh", pi["exhaustive"])
    for l in sorted(known_lines.values()):
        print(l)
    for l in incon_lines:
        print(l)
    if harness_errors:
        for e in harness_errors[:6]:
            print("HARNESS-ERROR %s" % e, file=sys.stderr)
        if not viol_lines:
            return 2
    for l in viol_lines:
        print(l)
    return 1 if viol_lines else 0


def crosscheck(samples):
    """Re-decide sampled obligations (PC and not A, expected unsat) with the cvc5 and z3 4.8 binaries."""
    import shutil
    import tempfile
    summ = {"sampled": len(samples), "agree": 0, "disagree": 0, "unknown": 0, "solvers": []}
    lines = []
    solvers = [("cvc5", ["cvc5", "--tlimit=20000"]), ("z3-4.8", ["/usr/bin/z3", "-T:20"])]
    solvers = [(n, c) for n, c in solvers if shutil.which(c[0])]
    summ["solvers"] = [n for n, _ in solvers]
    if not samples or not solvers:
        return {"summary": summ, "lines": lines}
    d = tempfile.mkdtemp(prefix="vf-smt-")
    try:
        for i, (label, text) in enumerate(samples):
            pth = os.path.join(d, "o%d.smt2" % i)
            with open(pth, "w") as f:
                f.write(text if "(check-sat)" in text else text + "\n(check-sat)\n")
            answers = []
            for n, c in solvers:
                try:
                    pr = subprocess.run(c + [pth], capture_output=True, text=True, timeout=40)
                    out = (pr.stdout or "").strip().splitlines()
                    ans = out[0].strip() if out else "unknown"
                    if "(error" in (pr.stdout + pr.stderr):
                        ans = "error"
                except Exception:  # noqa
                    ans = "unknown"
                answers.append(ans)
            if any(a_ == "sat" for a_ in answers):
                summ["disagree"] += 1
                lines.append("INCONCLUSIVE second solver disagrees on a discharged obligation '%s': %s" % (label, dict(zip(summ["solvers"], answers))))
            elif any(a_ == "unsat" for a_ in answers):
                summ["agree"] += 1
            else:
                summ["unknown"] += 1
    finally:
        shutil.rmtree(d, ignore_errors=True)
    return {"summary": summ, "lines": lines}


COMMON_ASSUMPTIONS = [
    "CPython 3.12 semantics; threads switch only at the scheduling points of engine S (base-lock acquire/release, thread start/join/exit, sleep, explicit points in user callables; source lines in line mode)",
    "stdlib Condition/Event/Semaphore/Queue/Future/ThreadPoolExecutor run as real code on the shimmed base lock; in the coarse granularity their method calls are atomic steps",
    "virtual clock: computation takes no time except eps per clock read / wake-up, 0 < eps <= 1/1024 (symbolic); maximal progress",
    "preemption-bounded exploration: schedules with more preemptions than the stated bound are not covered",
    "reals stand in for floats",
]

if __name__ == "__main__":
    sys.exit(main())
