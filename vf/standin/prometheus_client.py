"""Stand-in for prometheus_client (not installed in this sandbox), first on sys.path for C20 only,
so that more_executors' PrometheusMetrics is the live code path.  Records every metric in a
registry the harness can read and monitors that gauges never go negative."""

REGISTRY = {}      # (name, labels tuple) -> value
KINDS = {}         # name -> "counter" | "gauge"
NEGATIVE = []      # (name, labels, value) whenever a gauge went below zero


def reset():
    REGISTRY.clear()
    del NEGATIVE[:]


class _Child(object):
    def __init__(self, metric, key):
        self.metric = metric
        self.key = key

    def inc(self, amount=1):
        if self.metric.kind == "counter" and amount < 0:
            raise ValueError("Counters can only be incremented by non-negative amounts.")
        REGISTRY[self.key] = REGISTRY.get(self.key, 0) + amount

    def dec(self, amount=1):
        if self.metric.kind != "gauge":
            raise AttributeError("dec")
        v = REGISTRY.get(self.key, 0) - amount
        REGISTRY[self.key] = v
        if v < 0:
            NEGATIVE.append((self.key, v))


class _Metric(object):
    kind = None

    def __init__(self, name, documentation, labelnames=(), namespace="", **_kw):
        self.name = (namespace + "_" if namespace else "") + name
        self.labelnames = tuple(labelnames)
        KINDS[self.name] = self.kind

    def labels(self, *args, **kw):
        if args:
            vals = tuple(str(a) for a in args)
        else:
            if set(kw) != set(self.labelnames):
                raise ValueError("Incorrect label names")
            vals = tuple(str(kw[n]) for n in self.labelnames)
        return _Child(self, (self.name,) + vals)


class Counter(_Metric):
    kind = "counter"


class Gauge(_Metric):
    kind = "gauge"


def get(name, *labels):
    return REGISTRY.get(("more_executors_" + name,) + tuple(labels), 0)
