"""C17 contracts (engine X): attribute and method access through f_proxy on objects that are not
builtin scalars/containers - public names, names starting with ONE underscore (forwarded like any
other: namedtuple's _fields / _asdict / _replace, a user class's _x / _method) and missing names;
resolved and failed futures.  Integers are bounded to a few values: CrossHair realises them here anyway
(the proxy stores the object in a real Future), so the bound makes the enumeration finite."""
from collections import namedtuple

from more_executors.futures import f_proxy, f_return, f_return_error


class E(Exception):
    pass


class Obj(object):
    def __init__(self, v):
        self.x = v
        self._x = v + 1

    def method(self, k):
        return ("m", self.x, k)

    def _method(self, k):
        return ("_m", self._x, k)


Point = namedtuple("Point", ["a", "b"])


def _access(target, name, k):
    try:
        a = getattr(target, name)
        if callable(a):
            if name == "_replace":
                a = a(a=k)
            elif name in ("_asdict",):
                a = dict(a())
            elif name in ("count", "index"):
                a = a(k)
            else:
                a = a(k)
        return ("v", a)
    except Exception as e:  # noqa
        return ("e", type(e), e)


def _pick(names, which):
    # (an explicit branch per index: indexing a list with a symbolic int makes CrossHair search the value space)
    for i in range(len(names)):
        if which == i:
            return names[i]
    return names[-1]


OBJ_NAMES = ["x", "_x", "method", "_method", "nope", "_nope"]
NT_NAMES = ["a", "b", "_fields", "_asdict", "_replace", "count", "_nope"]


def c_object_attribute_names(which: int, v: int, k: int, failed: bool) -> bool:
    """
    pre: 0 <= which <= 5 and -2 <= v <= 2 and -2 <= k <= 2
    post: __return__
    """
    obj = Obj(v)
    exc = E("failed")
    p = f_proxy(f_return_error(exc) if failed else f_return(obj))
    name = _pick(OBJ_NAMES, which)
    got = _access(p, name, k)
    if failed:
        return got[0] == "e" and got[2] is exc  # the future's own exception, whatever the name
    exp = _access(obj, name, k)
    if exp[0] == "e":
        return got[0] == "e" and got[1] is exp[1]
    return got == exp


def c_namedtuple_attribute_names(which: int, a: int, b: int, k: int, failed: bool) -> bool:
    """
    pre: 0 <= which <= 6 and -1 <= a <= 1 and -1 <= b <= 1 and -1 <= k <= 1
    post: __return__
    """
    pt = Point(a, b)
    exc = E("failed")
    p = f_proxy(f_return_error(exc) if failed else f_return(pt))
    name = _pick(NT_NAMES, which)
    got = _access(p, name, k)
    if failed:
        return got[0] == "e" and got[2] is exc
    exp = _access(pt, name, k)
    if exp[0] == "e":
        return got[0] == "e" and got[1] is exp[1]
    return got == exp
