"""C13 contracts (engine X): map / flat_map laws over the real f_map, f_flat_map, MapExecutor,
FlatMapExecutor on the sync executor.  Each c_* function returns True iff the law holds."""
from concurrent.futures import Future

from more_executors import Executors
from more_executors.futures import f_map, f_flat_map, f_return, f_return_error, f_return_cancelled


class E1(Exception):
    pass


class E2(Exception):
    pass


def _tb_has(tb, tb0):
    """tb0 is still part of the traceback chain (re-raising prepends entries, it never drops them)"""
    if tb0 is None:
        return True
    while tb is not None:
        if tb is tb0:
            return True
        tb = tb.tb_next
    return False


def _mk_input(fail, v, exc):
    if fail:
        try:
            raise exc
        except E1:
            pass
        return f_return_error(exc)
    return f_return(v)


def _apply(form, inp, fn, efn, flat=False):
    """form 0: f_map/f_flat_map on a future; form 1: Map/FlatMapExecutor over sync."""
    if form == 0:
        if flat:
            return f_flat_map(inp, fn, efn)
        return f_map(inp, fn, efn)

    def call():
        return inp.result()

    base = Executors.sync()
    if flat:
        ex = base.with_flat_map(fn, error_fn=efn)
    else:
        ex = base.with_map(fn, error_fn=efn)
    return ex.submit(call)


def c_map_law(v: int, fail: bool, fcode: int, ecode: int, k: int, form: int) -> bool:
    """
    pre: 0 <= fcode <= 2 and 0 <= ecode <= 4 and 0 <= form <= 1
    post: __return__
    """
    exc = E1("input")
    new_f = E2("from fn")
    new_e = E2("from error_fn")
    fcalls = []
    ecalls = []

    def fn(x):
        fcalls.append(x)
        if fcode == 1:
            raise new_f
        return x + k

    def efn(e):
        ecalls.append(e)
        if ecode == 2:
            raise new_e
        if ecode == 3:
            raise e
        if ecode == 4:
            return None  # a perfectly good value
        return 0 - k

    inp = _mk_input(fail, v, exc)
    tb0 = exc.__traceback__
    out = _apply(form, inp, None if fcode == 2 else fn, None if ecode == 0 else efn)
    if not out.done():
        return False
    if not fail:
        if ecalls:
            return False
        if fcode == 2:
            return out.exception() is None and out.result() == v and fcalls == []
        if fcalls != [v]:
            return False
        if fcode == 1:
            return out.exception() is new_f
        return out.exception() is None and out.result() == v + k
    # failed input
    if fcalls:
        return False
    if ecode == 0:
        # (executor form: the callable re-raises the input's exception, which extends its traceback)
        return out.exception() is exc and (form == 1 or exc.__traceback__ is tb0) and ecalls == []
    if len(ecalls) != 1 or ecalls[0] is not exc:
        return False
    if ecode == 1:
        return out.exception() is None and out.result() == 0 - k
    if ecode == 4:
        return out.exception() is None and out.result() is None
    if ecode == 2:
        return out.exception() is new_e
    return out.exception() is exc and (form == 1 or _tb_has(exc.__traceback__, tb0))


def c_flat_map_law(v: int, fail: bool, inner: int, k: int, form: int) -> bool:
    """
    pre: 0 <= inner <= 4 and 0 <= form <= 1
    post: __return__
    """
    exc = E1("input")
    inner_exc = E2("inner")
    calls = []

    def fn(x):
        calls.append(x)
        if inner == 0:
            return f_return(x + k)
        if inner == 1:
            return f_return_error(inner_exc)
        if inner == 2:
            return f_return_cancelled()
        if inner == 3:
            return x + k  # not a future
        raise inner_exc

    inp = _mk_input(fail, v, exc)
    out = _apply(form, inp, fn, None, flat=True)
    if not out.done():
        return False
    if fail:
        return calls == [] and out.exception() is exc
    if calls != [v]:
        return False
    if inner == 0:
        return out.exception() is None and out.result() == v + k
    if inner == 1 or inner == 4:
        return out.exception() is inner_exc
    if inner == 2:
        return out.cancelled()
    return isinstance(out.exception(), TypeError)


def c_flat_map_error_fn(v: int, inner: int, k: int) -> bool:
    """
    pre: 0 <= inner <= 3
    post: __return__
    """
    exc = E1("input")
    inner_exc = E2("inner")
    ecalls = []

    def efn(e):
        ecalls.append(e)
        if inner == 0:
            return f_return(k)
        if inner == 1:
            return f_return_error(inner_exc)
        if inner == 3:
            return None  # not a future either
        return k  # not a future

    out = f_flat_map(f_return_error(exc), None, efn)
    if not out.done() or len(ecalls) != 1 or ecalls[0] is not exc:
        return False
    if inner == 0:
        return out.exception() is None and out.result() == k
    if inner == 1:
        return out.exception() is inner_exc
    return isinstance(out.exception(), TypeError)


def c_flat_map_identity_default(v: int) -> bool:
    """
    post: __return__
    """
    # omitted fn acts as identity (value is wrapped and flattened again)
    out = f_flat_map(f_return(v))
    return out.done() and out.exception() is None and out.result() == v


def c_map_compose(v: int, a1: int, b1: int, a2: int, b2: int, a3: int, b3: int, n: int) -> bool:
    """
    pre: 2 <= n <= 3
    post: __return__
    """
    # mapping with g then h (then j) equals mapping with the composition
    g = lambda x: a1 * x + b1  # noqa
    h = lambda x: a2 * x + b2  # noqa
    j = lambda x: a3 * x + b3  # noqa
    chained = f_map(f_map(f_return(v), g), h)
    comp = f_map(f_return(v), lambda x: h(g(x)))
    if n == 3:
        chained = f_map(chained, j)
        comp = f_map(f_return(v), lambda x: j(h(g(x))))
    ex = Executors.sync().with_map(g).with_map(h)
    if n == 3:
        ex = ex.with_map(j)
    viaex = ex.submit(lambda: v)
    return chained.result() == comp.result() == viaex.result()


def c_map_compose_error(v: int, k: int, where: int) -> bool:
    """
    pre: 0 <= where <= 1
    post: __return__
    """
    # an exception raised in the first or second stage is the outcome of the chain, later fns are skipped
    boom = E2("stage")
    later = []

    def g(x):
        if where == 0:
            raise boom
        return x + k

    def h(x):
        later.append(x)
        if where == 1:
            raise boom
        return x * 2

    out = f_map(f_map(f_return(v), g), h)
    if out.exception() is not boom:
        return False
    return later == ([] if where == 0 else [v + k])


class Duck(object):
    """A future by the library's own definition (check.is_future: it has add_done_callback), but not a
    concurrent.futures.Future subclass."""

    def __init__(self, inner):
        self._f = inner

    def add_done_callback(self, fn):
        self._f.add_done_callback(lambda _f: fn(self))

    def result(self, timeout=None):
        return self._f.result(timeout)

    def exception(self, timeout=None):
        return self._f.exception(timeout)

    def done(self):
        return self._f.done()

    def cancelled(self):
        return self._f.cancelled()

    def running(self):
        return self._f.running()

    def cancel(self):
        return self._f.cancel()


class EmptyBatch(Future):
    """A Future subclass whose instances are falsy (a container-like future with __len__ == 0)."""

    def __len__(self):
        return 0


def c_flat_map_falsy_future(v: int, kind: int, k: int, form: int) -> bool:
    """
    pre: 0 <= kind <= 3 and 0 <= form <= 1
    post: __return__
    """
    # "return future in any state": also a future object that happens to be falsy.
    # kind 0 resolved, 1 failed, 2 resolved later, 3 pending and the output is cancelled (request is forwarded)
    inner = EmptyBatch()
    inner_exc = E2("inner")
    if kind == 0:
        inner.set_result(v + k)
    elif kind == 1:
        inner.set_exception(inner_exc)
    out = _apply(form, _mk_input(False, v, None), lambda x: inner, None, flat=True)
    if kind == 2:
        if out.done():
            return False
        inner.set_result(v + k)
    if kind == 3:
        return out.cancel() is True and inner.cancelled() and out.cancelled()
    if not out.done():
        return False
    if kind == 1:
        return out.exception() is inner_exc
    return out.exception() is None and out.result() == v + k


def c_flat_map_future_like(v: int, kind: int, k: int, form: int, via_error_fn: bool) -> bool:
    """
    pre: 0 <= kind <= 5 and 0 <= form <= 1
    post: __return__
    """
    # what counts as "a future" for flat_map: anything future-like is flattened (kinds 0-2: value, error,
    # resolved later); None, '' and 0 are non-futures and give TypeError (kinds 3-5)
    inner_exc = E2("inner")
    late = Future()

    def fn(x):
        if kind == 0:
            return Duck(f_return(v + k))
        if kind == 1:
            return Duck(f_return_error(inner_exc))
        if kind == 2:
            return Duck(late)
        return (None, "", 0)[kind - 3]

    if via_error_fn:
        out = _apply(form, _mk_input(True, v, E1("input")), None, lambda e: fn(v), flat=True)
    else:
        out = _apply(form, _mk_input(False, v, None), fn, None, flat=True)
    if kind == 2:
        if out.done():
            return False
        late.set_result(v + k)
    if not out.done():
        return False
    if kind in (0, 2):
        return out.exception() is None and out.result() == v + k
    if kind == 1:
        return out.exception() is inner_exc
    return isinstance(out.exception(), TypeError)


class Pipeline(list):
    """A callable that happens to be falsy: a list of steps applied in order; with no steps len() == 0."""

    def __init__(self, tag):
        list.__init__(self)
        self.calls = []
        self.tag = tag

    def __call__(self, x):
        self.calls.append(x)
        return (self.tag, x)


def c_falsy_callable_is_still_called(v: int, form: int, flat: bool, as_error_fn: bool) -> bool:
    """
    pre: 0 <= form <= 1
    post: __return__
    """
    # "omitted functions act as identity" - a function that was given is called, even if the object is falsy
    p = Pipeline("p")
    if flat:
        fn = Pipeline("q")
        fn.__class__ = type("FlatPipeline", (Pipeline,), {"__call__": lambda self, x: (self.calls.append(x), f_return(("q", x)))[1]})
    else:
        fn = p
    if as_error_fn:
        out = _apply(form, _mk_input(True, v, E1("input")), None, fn, flat=flat)
        exp_arg_ok = len(fn.calls) == 1 and isinstance(fn.calls[0], E1)
        if not out.done() or not exp_arg_ok:
            return False
        r = out.result()
        return r[0] == ("q" if flat else "p") and isinstance(r[1], E1)
    out = _apply(form, _mk_input(False, v, None), fn, None, flat=flat)
    if not out.done() or fn.calls != [v]:
        return False
    return out.result() == (("q" if flat else "p"), v)
