"""C16 contracts: f_apply calls the function once, with every argument in its place."""
from concurrent.futures import Future

from more_executors.futures import f_apply, f_return

from vf.contracts.c14_bool import RF, E, _finish, _outcome

PERMS4 = [(a, b, c, d) for a in range(4) for b in range(4) for c in range(4) for d in range(4) if len({a, b, c, d}) == 4]


def _apply_all_orders(npos, nkw, a0, a1, a2, k0, k1, perm, fn_raises, fail_at):
    calls = []
    boom = E("fn")
    in_exc = E("input")

    def fn(*args, **kwargs):
        calls.append((args, sorted(kwargs.items())))
        if fn_raises:
            raise boom
        return ("r", args, sorted(kwargs.items()))

    ffn = RF()
    pos = [RF() for _ in range(npos)]
    kw = {}
    names = ["x", "y"][:nkw]
    for nm in names:
        kw[nm] = RF()
    out = f_apply(ffn, *pos, **kw)
    inputs = [("fn", ffn, fn)] + [("p%d" % i, pos[i], [a0, a1, a2][i]) for i in range(npos)] + \
        [(nm, kw[nm], [k0, k1][j]) for j, nm in enumerate(names)]
    # completion order: a permutation of the first 4, the rest in place
    order = list(range(len(inputs)))
    head = [i for i in PERMS4[perm] if i < len(inputs)]
    order = head + [i for i in order if i not in head]
    early_call = False
    for step, idx in enumerate(order):
        name, fut, val = inputs[idx]
        if calls and step < len(order):
            early_call = True  # fn ran before the last input resolved
        if idx == fail_at:
            _finish(fut, 1, None, in_exc)
        else:
            _finish(fut, 0, val, None)
    if early_call:
        return False
    got = _outcome(out)
    if 0 <= fail_at < len(inputs):
        return got[0] == "error" and got[1] is in_exc and calls == []
    exp_args = tuple([a0, a1, a2][:npos])
    exp_kw = sorted(zip(names, [k0, k1][:nkw]))
    if len(calls) != 1 or calls[0] != (exp_args, exp_kw):
        return False
    if fn_raises:
        return got[0] == "error" and got[1] is boom
    return got == ("value", ("r", exp_args, exp_kw))



def c_apply_0_0(a0: int, a1: int, a2: int, k0: int, k1: int, perm: int, fn_raises: bool, fail_at: int) -> bool:
    """
    pre: 0 <= perm <= 23 and -1 <= fail_at <= 0
    post: __return__
    """
    return _apply_all_orders(0, 0, a0, a1, a2, k0, k1, perm, fn_raises, fail_at)


def c_apply_0_1(a0: int, a1: int, a2: int, k0: int, k1: int, perm: int, fn_raises: bool, fail_at: int) -> bool:
    """
    pre: 0 <= perm <= 23 and -1 <= fail_at <= 1
    post: __return__
    """
    return _apply_all_orders(0, 1, a0, a1, a2, k0, k1, perm, fn_raises, fail_at)


def c_apply_0_2(a0: int, a1: int, a2: int, k0: int, k1: int, perm: int, fn_raises: bool, fail_at: int) -> bool:
    """
    pre: 0 <= perm <= 23 and -1 <= fail_at <= 2
    post: __return__
    """
    return _apply_all_orders(0, 2, a0, a1, a2, k0, k1, perm, fn_raises, fail_at)


def c_apply_1_0(a0: int, a1: int, a2: int, k0: int, k1: int, perm: int, fn_raises: bool, fail_at: int) -> bool:
    """
    pre: 0 <= perm <= 23 and -1 <= fail_at <= 1
    post: __return__
    """
    return _apply_all_orders(1, 0, a0, a1, a2, k0, k1, perm, fn_raises, fail_at)


def c_apply_1_1(a0: int, a1: int, a2: int, k0: int, k1: int, perm: int, fn_raises: bool, fail_at: int) -> bool:
    """
    pre: 0 <= perm <= 23 and -1 <= fail_at <= 2
    post: __return__
    """
    return _apply_all_orders(1, 1, a0, a1, a2, k0, k1, perm, fn_raises, fail_at)


def c_apply_1_2(a0: int, a1: int, a2: int, k0: int, k1: int, perm: int, fn_raises: bool, fail_at: int) -> bool:
    """
    pre: 0 <= perm <= 23 and -1 <= fail_at <= 3
    post: __return__
    """
    return _apply_all_orders(1, 2, a0, a1, a2, k0, k1, perm, fn_raises, fail_at)


def c_apply_2_0(a0: int, a1: int, a2: int, k0: int, k1: int, perm: int, fn_raises: bool, fail_at: int) -> bool:
    """
    pre: 0 <= perm <= 23 and -1 <= fail_at <= 2
    post: __return__
    """
    return _apply_all_orders(2, 0, a0, a1, a2, k0, k1, perm, fn_raises, fail_at)


def c_apply_2_1(a0: int, a1: int, a2: int, k0: int, k1: int, perm: int, fn_raises: bool, fail_at: int) -> bool:
    """
    pre: 0 <= perm <= 23 and -1 <= fail_at <= 3
    post: __return__
    """
    return _apply_all_orders(2, 1, a0, a1, a2, k0, k1, perm, fn_raises, fail_at)


def c_apply_2_2(a0: int, a1: int, a2: int, k0: int, k1: int, perm: int, fn_raises: bool, fail_at: int) -> bool:
    """
    pre: 0 <= perm <= 23 and -1 <= fail_at <= 4
    post: __return__
    """
    return _apply_all_orders(2, 2, a0, a1, a2, k0, k1, perm, fn_raises, fail_at)


def c_apply_3_0(a0: int, a1: int, a2: int, k0: int, k1: int, perm: int, fn_raises: bool, fail_at: int) -> bool:
    """
    pre: 0 <= perm <= 23 and -1 <= fail_at <= 3
    post: __return__
    """
    return _apply_all_orders(3, 0, a0, a1, a2, k0, k1, perm, fn_raises, fail_at)


def c_apply_3_1(a0: int, a1: int, a2: int, k0: int, k1: int, perm: int, fn_raises: bool, fail_at: int) -> bool:
    """
    pre: 0 <= perm <= 23 and -1 <= fail_at <= 4
    post: __return__
    """
    return _apply_all_orders(3, 1, a0, a1, a2, k0, k1, perm, fn_raises, fail_at)


def c_apply_3_2(a0: int, a1: int, a2: int, k0: int, k1: int, perm: int, fn_raises: bool, fail_at: int) -> bool:
    """
    pre: 0 <= perm <= 23 and -1 <= fail_at <= 5
    post: __return__
    """
    return _apply_all_orders(3, 2, a0, a1, a2, k0, k1, perm, fn_raises, fail_at)

def c_apply_preresolved(npos: int, a0: int, a1: int, a2: int, k0: int) -> bool:
    """
    pre: 0 <= npos <= 3
    post: __return__
    """
    def fn(*args, **kw):
        return (args, kw.get("z"))
    out = f_apply(f_return(fn), *[f_return(v) for v in [a0, a1, a2][:npos]], z=f_return(k0))
    return out.result() == (tuple([a0, a1, a2][:npos]), k0)


def c_apply_keyword_names(which: int, a: int, b: int, first: int) -> bool:
    """
    pre: 0 <= which <= 7 and 0 <= first <= 1
    post: __return__
    """
    # every keyword argument arrives under its own name, whatever that name is
    name = ["key", "value", "fn", "args", "kwargs", "self", "x", "out"][which]
    seen = []

    def fn(*args, **kwargs):
        seen.append((args, sorted(kwargs.items())))
        return ("r", args, sorted(kwargs.items()))

    fa, fb = RF(), RF()
    out = f_apply(f_return(fn), fa, **{name: fb})
    for i in ([0, 1] if first == 0 else [1, 0]):
        _finish([fa, fb][i], 0, [a, b][i], None)
    return out.done() and out.exception() is None and out.result() == ("r", (a,), [(name, b)]) and len(seen) == 1


def c_apply_mixed_done_pending(mask: int, a0: int, a1: int, a2: int, k0: int, rev: bool) -> bool:
    """
    pre: 0 <= mask <= 31
    post: __return__
    """
    # any MIX of inputs: those selected by mask are already finished when f_apply is called, the
    # others finish afterwards (forward or reverse); positions and names must not depend on that
    seen = []

    def fn(*args, **kwargs):
        seen.append(1)
        return ("r", args, sorted(kwargs.items()))

    fs = [RF() for _ in range(5)]
    vals = [fn, a0, a1, a2, k0]
    for i in range(5):
        if mask & (1 << i):
            _finish(fs[i], 0, vals[i], None)
    out = f_apply(fs[0], fs[1], fs[2], fs[3], z=fs[4])
    rest = [i for i in range(5) if not mask & (1 << i)]
    if rev:
        rest.reverse()
    for i in rest:
        if seen:
            return False
        _finish(fs[i], 0, vals[i], None)
    return out.done() and out.exception() is None and out.result() == ("r", (a0, a1, a2), [("z", k0)]) and len(seen) == 1
