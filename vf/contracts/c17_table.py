"""C17: boundary-witness enumeration in plain CPython (NOT a solver verdict).

For every forwarded operation x operand-type combination (including those CrossHair cannot
decide: C-level numeric conversions and float arithmetic), compares
outcome(op(f_proxy(f_return(x)), y)) with outcome(op(x, y)) over a table of boundary values.
Prints JSON: {"evaluations": n, "operations": k, "violations": [...]}"""
import itertools
import json
import math  # noqa: F401 (used by the generated expressions)
import sys

W = {
    "int": [0, 1, -1, 2, -3, 7, 255, -256, 10 ** 20, -(10 ** 20)],
    "bool": [True, False],
    "float": [0.0, -0.0, 1.0, -1.0, 0.5, -2.5, 3.999, 1e308, -1e308, 5e-324, float("inf"), float("-inf"), float("nan")],
    "str": ["", "0", "-7", "1.5", "x", "ab", "%d", "%s", " 3 "],
    "list": [[], [1], [1, 2, 3]],
    "tuple": [(), (1,), (3, 2, 1)],
    "dict": [{}, {1: 2}, {0: 0, 3: 4}],
}
COPY = {"list": list, "dict": dict}


def main():
    from more_executors.futures import f_proxy, f_return
    from vf.contracts.c17_proxy import _out, _eq, _set, _del  # noqa: F401
    from vf.contracts.c17_table_items import ITEMS

    n = 0
    viol = []
    import time
    for (name, types, pnames, expr) in ITEMS:
        _t0 = time.time()
        fn = eval("lambda p, %s: %s" % (", ".join(pnames[1:]) if len(pnames) > 1 else "_=None", expr),
                  dict(math=math, _set=_set, _del=_del, divmod=divmod, pow=pow))
        doms = [W[t] for t in types]
        if name.startswith(("pow", "lshift", "rshift", "mul", "round2", "getitem", "getslice", "setitem", "delitem")):
            # exponents / shift counts / repeat counts / indexes: small witnesses only
            doms = [doms[0]] + [[v for v in d if not isinstance(v, int) or isinstance(v, bool) or abs(v) <= 255] if t == "int" else d
                                for d, t in zip(doms[1:], types[1:])]
            if name.startswith("pow"):
                doms[0] = [v for v in doms[0] if not isinstance(v, int) or abs(v) <= 255]
                doms = [doms[0]] + [[v for v in d if not isinstance(v, int) or abs(v) <= 7] for d in doms[1:]]
        for vals in itertools.product(*doms):
            x = vals[0]
            rest = vals[1:]
            mk = COPY.get(types[0], lambda v: v)
            a = _out(lambda: fn(mk(x), *rest))
            b = _out(lambda: fn(f_proxy(f_return(mk(x))), *rest))
            n += 1
            if not _eq(a, b):
                if len(viol) < 20:
                    viol.append(dict(name=name, info="%s with %r: plain %r, through proxy %r" % (expr, vals, a, b)))
        if time.time() - _t0 > 1.0:
            sys.stderr.write("slow item %s %.1fs\n" % (name, time.time() - _t0))
    print(json.dumps(dict(evaluations=n, operations=len(ITEMS), violations=viol), default=repr))


if __name__ == "__main__":
    sys.exit(main())
