"""C14 contracts: f_and / f_or are and/or folds over the order in which inputs finish."""
from concurrent.futures import Future

from more_executors.futures import f_and, f_or, f_nocancel

PERMS3 = [(0, 1, 2), (0, 2, 1), (1, 0, 2), (1, 2, 0), (2, 0, 1), (2, 1, 0)]


class RF(Future):
    def __init__(self):
        Future.__init__(self)
        self.cancels = 0

    def cancel(self):
        self.cancels += 1
        return Future.cancel(self)


class E(Exception):
    pass


def _finish(f, kind, v, exc):
    # kind: 0 value, 1 exception, 2 cancelled, 3 never
    if kind == 3 or f.done():
        return False
    if kind == 2:
        if Future.cancel(f):
            f.set_running_or_notify_cancel()
            return True
        return False
    if not f.set_running_or_notify_cancel():
        return False
    if kind == 0:
        f.set_result(v)
    else:
        f.set_exception(exc)
    return True


def _fold(op, order, kinds, vals, excs, ndistinct):
    """-> ('pending',) | ('value', v) | ('error', e) | ('cancelled',) ; decided_at index in order or None"""
    finished = 0
    last = None
    for pos, i in enumerate(order):
        k = kinds[i]
        if k == 3:
            continue
        finished += 1
        if k == 0:
            o = ("value", vals[i])
            truthy = bool(vals[i])
        elif k == 1:
            o = ("error", excs[i])
            truthy = False
        else:
            o = ("cancelled",)
            truthy = False
        last = o
        if (op == "or" and truthy) or (op == "and" and not truthy):
            return o, pos
        if finished == ndistinct:
            return o, pos
    return ("pending",), None


def _outcome(f):
    if not f.done():
        return ("pending",)
    if f.cancelled():
        return ("cancelled",)
    if f.exception() is not None:
        return ("error", f.exception())
    return ("value", f.result())


def _check(op, k0, k1, k2, v0, v1, v2, perm, n):
    kinds = [k0, k1, k2][:n]
    vals = [v0, v1, v2][:n]
    excs = [E("e0"), E("e1"), E("e2")][:n]
    fs = [RF() for _ in range(n)]
    out = (f_or if op == "or" else f_and)(*fs)
    order = [i for i in PERMS3[perm] if i < n]
    for i in order:
        _finish(fs[i], kinds[i], vals[i], excs[i])
    exp, at = _fold(op, order, kinds, vals, excs, n)
    got = _outcome(out)
    if exp[0] != got[0]:
        return False
    if exp[0] == "value" and not (got[1] is exp[1] or got[1] == exp[1]):
        return False
    if exp[0] == "error" and got[1] is not exp[1]:
        return False
    if at is not None:
        # as soon as the output is decided every still-pending input receives a cancel()
        for i in range(n):
            if kinds[i] == 3 or order.index(i) > at:
                if fs[i].cancels < 1:
                    return False
    return True


def c_or_fold3(k0: int, k1: int, k2: int, v0: int, v1: int, v2: int, perm: int) -> bool:
    """
    pre: 0 <= k0 <= 3 and 0 <= k1 <= 3 and 0 <= k2 <= 3 and 0 <= perm <= 5
    post: __return__
    """
    return _check("or", k0, k1, k2, v0, v1, v2, perm, 3)


def c_and_fold3(k0: int, k1: int, k2: int, v0: int, v1: int, v2: int, perm: int) -> bool:
    """
    pre: 0 <= k0 <= 3 and 0 <= k1 <= 3 and 0 <= k2 <= 3 and 0 <= perm <= 5
    post: __return__
    """
    return _check("and", k0, k1, k2, v0, v1, v2, perm, 3)


def c_or_fold2(k0: int, k1: int, v0: int, v1: int, perm: int) -> bool:
    """
    pre: 0 <= k0 <= 3 and 0 <= k1 <= 3 and 0 <= perm <= 5
    post: __return__
    """
    return _check("or", k0, k1, 0, v0, v1, 0, perm, 2)


def c_and_fold2(k0: int, k1: int, v0: int, v1: int, perm: int) -> bool:
    """
    pre: 0 <= k0 <= 3 and 0 <= k1 <= 3 and 0 <= perm <= 5
    post: __return__
    """
    return _check("and", k0, k1, 0, v0, v1, 0, perm, 2)


def c_fold_other_types(op: int, s0: str, s1: str, first: int) -> bool:
    """
    pre: 0 <= op <= 1 and 0 <= first <= 1 and len(s0) <= 2 and len(s1) <= 2
    post: __return__
    """
    # truthiness of other value types (strings; lists built from them)
    fs = [RF(), RF()]
    vals = [s0, [s1] if s1 else []]
    out = (f_or if op == 0 else f_and)(*fs)
    order = [first, 1 - first]
    for i in order:
        _finish(fs[i], 0, vals[i], None)
    a, b = vals[order[0]], vals[order[1]]
    exp = (a or b) if op == 0 else (a and b)
    return out.done() and out.result() is exp


def c_single_input_returned_as_is(op: int) -> bool:
    """
    pre: 0 <= op <= 1
    post: __return__
    """
    f = RF()
    return (f_or if op == 0 else f_and)(f) is f


def c_output_cancel_reaches_inputs(op: int, shield: bool, k0: int, v0: int) -> bool:
    """
    pre: 0 <= op <= 1 and 0 <= k0 <= 1
    post: __return__
    """
    a, b, c = RF(), RF(), RF()
    _finish(a, k0, v0, E("a"))
    decided_by_a = (k0 == 0 and ((op == 0 and bool(v0)) or (op == 1 and not v0))) or (k0 == 1 and op == 1)
    out = (f_or if op == 0 else f_and)(a, f_nocancel(b) if shield else b, c)
    if decided_by_a:
        return out.done() and c.cancels >= 1 and (b.cancels == 0 if shield else b.cancels >= 1)
    r = out.cancel()
    if not r:
        return False
    if c.cancels < 1:
        return False
    if shield:
        return b.cancels == 0 and not b.cancelled()
    return b.cancels >= 1


def _check_predone(op, k0, k1, k2, v0, v1, v2, mask):
    # inputs in `mask` are already finished when f_or / f_and is called: they count as having
    # finished first, in argument order; the others finish afterwards in argument order
    kinds = [k0, k1, k2]
    vals = [v0, v1, v2]
    excs = [E("e0"), E("e1"), E("e2")]
    fs = [RF() for _ in range(3)]
    pre = [i for i in range(3) if (mask >> i) & 1]
    post = [i for i in range(3) if not (mask >> i) & 1]
    for i in pre:
        _finish(fs[i], kinds[i], vals[i], excs[i])
    pre = [i for i in pre if kinds[i] != 3]
    post = post + [i for i in range(3) if (mask >> i) & 1 and kinds[i] == 3]
    out = (f_or if op == "or" else f_and)(*fs)
    for i in post:
        _finish(fs[i], kinds[i], vals[i], excs[i])
    order = pre + post
    exp, at = _fold(op, order, kinds, vals, excs, 3)
    got = _outcome(out)
    if exp[0] != got[0]:
        return False
    if exp[0] == "value" and not (got[1] is exp[1] or got[1] == exp[1]):
        return False
    if exp[0] == "error" and got[1] is not exp[1]:
        return False
    return True


def c_or_predone3(k0: int, k1: int, k2: int, v0: int, v1: int, v2: int, mask: int) -> bool:
    """
    pre: 0 <= k0 <= 3 and 0 <= k1 <= 3 and 0 <= k2 <= 3 and 1 <= mask <= 7
    post: __return__
    """
    return _check_predone("or", k0, k1, k2, v0, v1, v2, mask)


def c_and_predone3(k0: int, k1: int, k2: int, v0: int, v1: int, v2: int, mask: int) -> bool:
    """
    pre: 0 <= k0 <= 3 and 0 <= k1 <= 3 and 0 <= k2 <= 3 and 1 <= mask <= 7
    post: __return__
    """
    return _check_predone("and", k0, k1, k2, v0, v1, v2, mask)
