"""C19 contracts: bind / flat_bind chains are equivalent to the executor chain (thread-free layers)."""
import functools

from more_executors import Executors
from more_executors.futures import f_return, f_return_error


class E(Exception):
    pass


def _out(f):
    if f.exception() is not None:
        e = f.exception()
        return ("e", type(e), e.args if isinstance(e, E) else None)
    return ("v", f.result())


class Callable(object):
    def __init__(self, k, calls):
        self.k = k
        self.calls = calls

    def __call__(self, x, y=0):
        self.calls.append((x, y))
        if x == self.k:
            raise E(x)
        return x * 2 + y


def _chain(ex, codes, k):
    for c in codes:
        if c == 0:
            ex = ex.with_map(lambda v: v + k)
        elif c == 1:
            ex = ex.with_flat_map(lambda v: f_return(v - k))
        elif c == 2:
            ex = ex.with_map(lambda v: v, error_fn=lambda e: -1)
        elif c == 3:
            ex = ex.with_cancel_on_shutdown()
    return ex


def _bind_equivalence(c0, c1, c2, nbefore, kind, x, y, k):
    # E.chain1.bind(fn).chain2(*args)  ==  E.chain1.chain2.submit(fn, *args)
    codes = [c0, c1, c2]
    calls_a, calls_b = [], []

    def mk(calls):
        if kind == 0:
            def fn(x, y=0):
                calls.append((x, y))
                if x == k:
                    raise E(x)
                return x * 2 + y
            return fn
        if kind == 1:
            # a partial presetting the keyword that the call then overrides
            return functools.partial(Callable(k, calls), y=k + 1)
        return Callable(k, calls)

    a = _chain(_chain(Executors.sync(), codes[:nbefore], k).bind(mk(calls_a)), codes[nbefore:], k)(x, y=y)
    b = _chain(_chain(Executors.sync(), codes[:nbefore], k), codes[nbefore:], k).submit(mk(calls_b), x, y=y)
    return _out(a) == _out(b) and calls_a == calls_b and len(calls_a) == 1


def c_flat_bind(state: int, x: int, c0: int, k: int) -> bool:
    """
    pre: 0 <= state <= 2 and 0 <= c0 <= 3
    post: __return__
    """
    # flat_bind(fn) == bind(fn).with_flat_map(identity): a future returned by fn is flattened
    exc = E("inner")

    def fn(v):
        if state == 0:
            return f_return(v + 1)
        if state == 1:
            return f_return_error(exc)
        return v + 1  # not a future

    a = _chain(Executors.sync().flat_bind(fn), [c0], k)(x)
    b = _chain(Executors.sync().bind(fn).with_flat_map(lambda f: f), [c0], k)(x)
    return _out(a) == _out(b)


def c_bind_equivalence_0_0(c0: int, c1: int, c2: int, x: int, y: int, k: int) -> bool:
    """
    pre: 0 <= c0 <= 3 and 0 <= c1 <= 3 and 0 <= c2 <= 3
    post: __return__
    """
    return _bind_equivalence(c0, c1, c2, 0, 0, x, y, k)


def c_bind_equivalence_0_1(c0: int, c1: int, c2: int, x: int, y: int, k: int) -> bool:
    """
    pre: 0 <= c0 <= 3 and 0 <= c1 <= 3 and 0 <= c2 <= 3
    post: __return__
    """
    return _bind_equivalence(c0, c1, c2, 0, 1, x, y, k)


def c_bind_equivalence_0_2(c0: int, c1: int, c2: int, x: int, y: int, k: int) -> bool:
    """
    pre: 0 <= c0 <= 3 and 0 <= c1 <= 3 and 0 <= c2 <= 3
    post: __return__
    """
    return _bind_equivalence(c0, c1, c2, 0, 2, x, y, k)


def c_bind_equivalence_1_0(c0: int, c1: int, c2: int, x: int, y: int, k: int) -> bool:
    """
    pre: 0 <= c0 <= 3 and 0 <= c1 <= 3 and 0 <= c2 <= 3
    post: __return__
    """
    return _bind_equivalence(c0, c1, c2, 1, 0, x, y, k)


def c_bind_equivalence_1_1(c0: int, c1: int, c2: int, x: int, y: int, k: int) -> bool:
    """
    pre: 0 <= c0 <= 3 and 0 <= c1 <= 3 and 0 <= c2 <= 3
    post: __return__
    """
    return _bind_equivalence(c0, c1, c2, 1, 1, x, y, k)


def c_bind_equivalence_1_2(c0: int, c1: int, c2: int, x: int, y: int, k: int) -> bool:
    """
    pre: 0 <= c0 <= 3 and 0 <= c1 <= 3 and 0 <= c2 <= 3
    post: __return__
    """
    return _bind_equivalence(c0, c1, c2, 1, 2, x, y, k)


def c_bind_equivalence_2_0(c0: int, c1: int, c2: int, x: int, y: int, k: int) -> bool:
    """
    pre: 0 <= c0 <= 3 and 0 <= c1 <= 3 and 0 <= c2 <= 3
    post: __return__
    """
    return _bind_equivalence(c0, c1, c2, 2, 0, x, y, k)


def c_bind_equivalence_2_1(c0: int, c1: int, c2: int, x: int, y: int, k: int) -> bool:
    """
    pre: 0 <= c0 <= 3 and 0 <= c1 <= 3 and 0 <= c2 <= 3
    post: __return__
    """
    return _bind_equivalence(c0, c1, c2, 2, 1, x, y, k)


def c_bind_equivalence_2_2(c0: int, c1: int, c2: int, x: int, y: int, k: int) -> bool:
    """
    pre: 0 <= c0 <= 3 and 0 <= c1 <= 3 and 0 <= c2 <= 3
    post: __return__
    """
    return _bind_equivalence(c0, c1, c2, 2, 2, x, y, k)


def c_bind_equivalence_3_0(c0: int, c1: int, c2: int, x: int, y: int, k: int) -> bool:
    """
    pre: 0 <= c0 <= 3 and 0 <= c1 <= 3 and 0 <= c2 <= 3
    post: __return__
    """
    return _bind_equivalence(c0, c1, c2, 3, 0, x, y, k)


def c_bind_equivalence_3_1(c0: int, c1: int, c2: int, x: int, y: int, k: int) -> bool:
    """
    pre: 0 <= c0 <= 3 and 0 <= c1 <= 3 and 0 <= c2 <= 3
    post: __return__
    """
    return _bind_equivalence(c0, c1, c2, 3, 1, x, y, k)


def c_bind_equivalence_3_2(c0: int, c1: int, c2: int, x: int, y: int, k: int) -> bool:
    """
    pre: 0 <= c0 <= 3 and 0 <= c1 <= 3 and 0 <= c2 <= 3
    post: __return__
    """
    return _bind_equivalence(c0, c1, c2, 3, 2, x, y, k)
