"""C15 contracts: f_zip / f_sequence / f_traverse keep positions and propagate the first failure."""
from concurrent.futures import Future

from more_executors.futures import f_zip, f_sequence, f_traverse, f_return, f_return_error, f_nocancel

from vf.contracts.c14_bool import RF, E, _finish, _outcome, PERMS3


def c_zip_positions(n: int, base: int) -> bool:
    """
    pre: 0 <= n <= 22
    post: __return__
    """
    vals = [base + i for i in range(n)]
    out = f_zip(*[f_return(v) for v in vals])
    r = out.result()
    if not isinstance(r, tuple) or len(r) != n:
        return False
    for i in range(n):
        if r[i] != vals[i]:
            return False
    return True


def c_sequence_positions(n: int, base: int, via: int) -> bool:
    """
    pre: 0 <= n <= 22 and 0 <= via <= 1
    post: __return__
    """
    vals = [base + i for i in range(n)]
    if via == 0:
        out = f_sequence([f_return(v) for v in vals])
    else:
        out = f_traverse(lambda v: f_return(v), vals)
    r = out.result()
    return type(r) is list and r == vals


def c_sequence_iterable(n: int, base: int) -> bool:
    """
    pre: 0 <= n <= 5
    post: __return__
    """
    # any iterable, consumed once
    out = f_sequence(f_return(base + i) for i in range(n))
    return out.result() == [base + i for i in range(n)]


def _order_check(which, k0, k1, k2, v0, v1, v2, perm, dup):
    kinds, vals, excs = [k0, k1, k2], [v0, v1, v2], [E("0"), E("1"), E("2")]
    fs = [RF(), RF(), RF()]
    ins = list(fs)
    if dup:
        ins[2] = ins[0]
        kinds[2], vals[2], excs[2] = kinds[0], vals[0], excs[0]
    if which == 0:
        out = f_zip(*ins)
    elif which == 1:
        out = f_sequence(ins)
    else:
        out = f_traverse(lambda f: f, ins)
    order = [i for i in PERMS3[perm]]
    exp = None
    remaining = set(id(f) for f in ins)
    for i in order:
        f = ins[i]
        if not _finish(f, kinds[i], vals[i], excs[i]):
            continue
        if exp is None:
            if kinds[i] == 1:
                exp = ("error", excs[i])
            elif kinds[i] == 2:
                exp = ("cancelled",)
        remaining.discard(id(f))
    if exp is None:
        if any(k == 3 for k in kinds):
            exp = ("pending",)
        else:
            exp = ("value", tuple(vals) if which == 0 else list(vals))
    got = _outcome(out)
    if got[0] != exp[0]:
        return False
    if exp[0] == "value":
        if which == 0:
            return isinstance(got[1], tuple) and tuple(got[1]) == exp[1]
        return type(got[1]) is list and got[1] == exp[1]
    if exp[0] == "error":
        return got[1] is exp[1]
    return True


def c_zip_orders_nodup(k0: int, k1: int, k2: int, v0: int, v1: int, v2: int, perm: int) -> bool:
    """
    pre: 0 <= k0 <= 3 and 0 <= k1 <= 3 and 0 <= k2 <= 3 and 0 <= perm <= 5
    post: __return__
    """
    return _order_check(0, k0, k1, k2, v0, v1, v2, perm, False)


def c_zip_orders_dup(k0: int, k1: int, k2: int, v0: int, v1: int, v2: int, perm: int) -> bool:
    """
    pre: 0 <= k0 <= 3 and 0 <= k1 <= 3 and 0 <= k2 <= 3 and 0 <= perm <= 5
    post: __return__
    """
    return _order_check(0, k0, k1, k2, v0, v1, v2, perm, True)


def c_sequence_orders_nodup(k0: int, k1: int, k2: int, v0: int, v1: int, v2: int, perm: int) -> bool:
    """
    pre: 0 <= k0 <= 3 and 0 <= k1 <= 3 and 0 <= k2 <= 3 and 0 <= perm <= 5
    post: __return__
    """
    return _order_check(1, k0, k1, k2, v0, v1, v2, perm, False)


def c_sequence_orders_dup(k0: int, k1: int, k2: int, v0: int, v1: int, v2: int, perm: int) -> bool:
    """
    pre: 0 <= k0 <= 3 and 0 <= k1 <= 3 and 0 <= k2 <= 3 and 0 <= perm <= 5
    post: __return__
    """
    return _order_check(1, k0, k1, k2, v0, v1, v2, perm, True)


def c_traverse_orders_nodup(k0: int, k1: int, k2: int, v0: int, v1: int, v2: int, perm: int) -> bool:
    """
    pre: 0 <= k0 <= 3 and 0 <= k1 <= 3 and 0 <= k2 <= 3 and 0 <= perm <= 5
    post: __return__
    """
    return _order_check(2, k0, k1, k2, v0, v1, v2, perm, False)


def c_traverse_orders_dup(k0: int, k1: int, k2: int, v0: int, v1: int, v2: int, perm: int) -> bool:
    """
    pre: 0 <= k0 <= 3 and 0 <= k1 <= 3 and 0 <= k2 <= 3 and 0 <= perm <= 5
    post: __return__
    """
    return _order_check(2, k0, k1, k2, v0, v1, v2, perm, True)


def c_output_cancel_reaches_inputs(which: int, k0: int, v0: int, shield: bool) -> bool:
    """
    pre: 0 <= which <= 2 and k0 == 0
    post: __return__
    """
    a, b, c = RF(), RF(), RF()
    _finish(a, k0, v0, E("a"))
    ins = [a, f_nocancel(b) if shield else b, c]
    out = f_zip(*ins) if which == 0 else (f_sequence(ins) if which == 1 else f_traverse(lambda f: f, ins))
    if not out.cancel():
        return False
    if not out.cancelled() or c.cancels < 1:
        return False
    return (b.cancels == 0) if shield else (b.cancels >= 1)


def c_traverse_calls(n: int, base: int, fail_at: int) -> bool:
    """
    pre: 0 <= n <= 6 and -1 <= fail_at <= 6
    post: __return__
    """
    # fn is called exactly once per element, in iteration order; its exception becomes the output's
    seen = []
    boom = E("fn")

    def fn(x):
        seen.append(x)
        if len(seen) - 1 == fail_at:
            raise boom
        return f_return(x * 2)

    xs = [base + i for i in range(n)]
    out = f_traverse(fn, xs)
    if 0 <= fail_at < n:
        return out.exception() is boom and seen == xs[:fail_at + 1]
    return out.result() == [x * 2 for x in xs] and seen == xs


def c_large_counts(sel: int, which: int, bad: int, rev: bool) -> bool:
    """
    pre: 0 <= sel <= 1 and 0 <= which <= 2 and -1 <= bad <= 2
    post: __return__
    """
    base = 7
    # 'and large': 40 / 150 inputs (beyond the 20 named-tuple classes), pending at creation, finished in forward or reverse order;
    # bad >= 0 fails the input at 0 / the middle / the end first
    n = 40 if sel == 0 else 150
    fs = [Future() for _ in range(n)]
    out = f_zip(*fs) if which == 0 else (f_sequence(fs) if which == 1 else f_traverse(lambda f: f, fs))
    boom = E("big")
    if bad >= 0:
        fs[0 if bad == 0 else (n // 2 if bad == 1 else n - 1)].set_exception(boom)
    order = range(n - 1, -1, -1) if rev else range(n)
    for i in order:
        if not fs[i].done():
            fs[i].set_result(base + i)
    if bad >= 0:
        return out.exception() is boom
    r = out.result()
    exp = [base + i for i in range(n)]
    if which == 0:
        return isinstance(r, tuple) and len(r) == n and list(r) == exp
    return type(r) is list and r == exp


def _finished_at_call(which, k0, k1, k2, v0, v1, v2, mask):
    # inputs selected by mask are already finished (value / failed / cancelled) when the function is
    # called - it returns a future all the same; the others finish afterwards, in order
    kinds, vals, excs = [k0, k1, k2], [v0, v1, v2], [E("0"), E("1"), E("2")]
    ins = [RF(), RF(), RF()]
    pre = [i for i in range(3) if mask & (1 << i)]
    post = [i for i in range(3) if not mask & (1 << i)]
    for i in pre:
        _finish(ins[i], kinds[i], vals[i], excs[i])
    if which == 0:
        out = f_zip(*ins)
    elif which == 1:
        out = f_sequence(ins)
    else:
        out = f_traverse(lambda f: f, ins)
    for i in post:
        _finish(ins[i], kinds[i], vals[i], excs[i])
    exp = None
    for i in pre + post:
        if kinds[i] == 1:
            exp = ("error", excs[i])
            break
        if kinds[i] == 2:
            exp = ("cancelled",)
            break
    got = _outcome(out)
    if exp is None:
        if which == 0:
            return got[0] == "value" and isinstance(got[1], tuple) and tuple(got[1]) == (v0, v1, v2)
        return got[0] == "value" and type(got[1]) is list and got[1] == [v0, v1, v2]
    if got[0] != exp[0]:
        return False
    return exp[0] != "error" or got[1] is exp[1]


def c_zip_inputs_finished_at_call(k0: int, k1: int, k2: int, v0: int, v1: int, v2: int, mask: int) -> bool:
    """
    pre: 0 <= k0 <= 2 and 0 <= k1 <= 2 and 0 <= k2 <= 2 and 0 <= mask <= 7
    post: __return__
    """
    return _finished_at_call(0, k0, k1, k2, v0, v1, v2, mask)


def c_sequence_inputs_finished_at_call(k0: int, k1: int, k2: int, v0: int, v1: int, v2: int, mask: int) -> bool:
    """
    pre: 0 <= k0 <= 2 and 0 <= k1 <= 2 and 0 <= k2 <= 2 and 0 <= mask <= 7
    post: __return__
    """
    return _finished_at_call(1, k0, k1, k2, v0, v1, v2, mask)


def c_traverse_inputs_finished_at_call(k0: int, k1: int, k2: int, v0: int, v1: int, v2: int, mask: int) -> bool:
    """
    pre: 0 <= k0 <= 2 and 0 <= k1 <= 2 and 0 <= k2 <= 2 and 0 <= mask <= 7
    post: __return__
    """
    return _finished_at_call(2, k0, k1, k2, v0, v1, v2, mask)
