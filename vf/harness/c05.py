"""C05 — retry: exact attempt accounting, sequential attempts, exact back-off."""
from __future__ import annotations

from vf.harness.common import *  # noqa
from vf.engine import sched

PROPERTY = "C05"
K = 48


class Retryable(Exception):
    pass


class SubRetryable(Retryable):
    pass


class Fatal(Exception):
    pass


def scn_retry(ctx):
    """1-2 submissions to RetryExecutor(base) with a recording ExceptionRetryPolicy whose
    sleep / exponent / max_sleep are symbolic reals; the callable follows a per-invocation
    script (return | raise Retryable | raise SubRetryable | raise Fatal) chosen by the explorer."""
    from more_executors import Executors
    from more_executors.retry import RetryExecutor, ExceptionRetryPolicy

    p = ctx.params
    nsub = p.get("nsub", 1)
    maxatt = p.get("max_attempts", 3)
    basekind = p.get("base", "pool")
    mode = p.get("policy", "exception")  # exception | raises
    eps = ctx.eps
    ev = ctx.ev
    sleep = ctx.real("sleep", lo=0, lo_strict=True)
    expo = ctx.real("exponent", lo=1 if p.get("exp_ge1", True) else 0, lo_strict=not p.get("exp_ge1", True))
    maxs = ctx.real("max_sleep", lo=0, lo_strict=True)
    if p.get("huge_sleep"):
        # a back-off that means "practically never": beyond what a timed wait accepts (threading.TIMEOUT_MAX ~ 9.2e9 s)
        from fractions import Fraction
        sleep = SReal(Fraction(10 ** 10))
        maxs = SReal(Fraction(10 ** 10))
        expo = SReal(Fraction(1))
    ctx.assume(sleep >= 128 * eps)
    ctx.assume(maxs >= 128 * eps)
    if not p.get("huge_sleep"):
        ctx.assume(sleep <= 1000)
        ctx.assume(maxs <= 1000)
    ctx.assume(expo <= 8)
    if not p.get("exp_ge1", True):
        ctx.assume(sleep * expo >= 128 * eps)

    import time as time_mod
    dur = None
    if p.get("slow_callable"):
        dur = ctx.real("dur", lo=1, hi=3)
    calls = []  # policy calls: (method, attempt, sub)

    class Pol(ExceptionRetryPolicy):
        def should_retry(self, attempt, future):
            calls.append(("should_retry", attempt, id(future), sched.now()))
            if mode == "raises" and p.get("raise_in", "should_retry") == "should_retry" and attempt == p.get("raise_at", 1):
                raise RuntimeError("policy is broken")
            return ExceptionRetryPolicy.should_retry(self, attempt, future)

        def sleep_time(self, attempt, future):
            calls.append(("sleep_time", attempt, id(future), sched.now()))
            if mode == "raises" and p.get("raise_in") == "sleep_time" and attempt == p.get("raise_at", 1):
                raise RuntimeError("policy is broken")
            return ExceptionRetryPolicy.sleep_time(self, attempt, future)

    if p.get("falsy_policy"):
        # a policy object that happens to be falsy (a rule set with len() == 0 that still decides)
        Pol.__len__ = lambda self: 0
    pol = Pol(max_attempts=maxatt, sleep=sleep, exponent=expo, max_sleep=maxs,
              exception_base={"list": [Retryable], "class": Retryable, "tuple2": (KeyError, Retryable), "list2": [Retryable, KeyError]}[
                  p.get("base_form", "list" if p.get("base_list", True) else "class")])
    if basekind == "pool":
        base = Executors.thread_pool(max_workers=2)
    elif basekind == "sync":
        base = Executors.sync()
    else:
        base = None
    ex = RetryExecutor(base, retry_policy=pol)

    subs = []
    for i in range(nsub):
        subs.append(dict(i=i, x=ctx.int("x%d" % i), inv=[], holder=[None], cb=[], excs=[], running=[0], overlap=[False],
                         early_done=[False]))

    def mk_fn(sp):
        def fn(x, tag=None):
            k = len(sp["inv"])
            rec = dict(k=k, t0=sched.now(), args=(x, tag))
            sp["inv"].append(rec)
            if sp["running"][0]:
                sp["overlap"][0] = True
            sp["running"][0] += 1
            f = sp["holder"][0]
            if f is not None and f.done():
                sp["early_done"][0] = True
            sched.point()
            if dur is not None:
                time_mod.sleep(dur)  # a slow callable: the back-off counts from its END
            if sp["running"][0] > 1:
                sp["overlap"][0] = True
            c = ctx.choice(4, "script%d.%d" % (sp["i"], k)) if k + 1 < maxatt + 1 else 0
            rec["c"] = c
            sp["running"][0] -= 1
            rec["t1"] = sched.now()
            if c == 0:
                rec["out"] = ("value", x * 3 + k)
                return x * 3 + k
            e = (Retryable, SubRetryable, Fatal)[c - 1]("boom %d.%d" % (sp["i"], k))
            rec["out"] = ("error", e)
            raise e
        return fn

    def submit(sp):
        fn = mk_fn(sp)
        f = ex.submit(fn, sp["x"], tag=sp["i"])
        sp["holder"][0] = f
        f.add_done_callback(lambda _f: sp["cb"].append(sched.now()))
        sp["f"] = f

    ths = [spawn("client%d" % sp["i"], submit, sp) for sp in subs]
    for t in ths:
        t.join(BIG)
    # expected worst-case duration: every attempt waits at most max_sleep
    horizon = sched.now() + (maxs + 1) * (maxatt + 1) + 10
    for sp in subs:
        wait_done(sp["f"], horizon)
    # done() turns true before the done-callbacks have run: let the resolving thread finish them
    sched.vsleep_until(sched.now() + 8 * eps)
    tdone = sched.now()
    for sp in subs:
        f = sp["f"]
        inv = sp["inv"]
        i = sp["i"]
        if not ctx.check("future-done", f.done(), "submission %d pending after all attempts (%d invocations)" % (i, len(inv))):
            continue
        # oracle: run until first success, first non-retryable exception, or max_attempts
        exp_n = 0
        for rec in inv:
            exp_n += 1
            if rec["c"] in (0, 3) or exp_n >= maxatt:
                break
        if mode == "raises":
            ra = p.get("raise_at", 1)
            if p.get("raise_in", "should_retry") == "should_retry" or any(r["c"] in (1, 2) for r in inv[:ra][-1:]):
                exp_n = min(exp_n, ra)
        ctx.check("attempt-count", len(inv) == exp_n, "sub %d: %d invocations, expected %d (script %s)" % (
            i, len(inv), exp_n, [r["c"] for r in inv]))
        ctx.check("attempts-sequential", not sp["overlap"][0], "sub %d: two attempts overlapped" % i)
        ctx.check("args-exact", all(bool(eq_term(r["args"][0], sp["x"])) and r["args"][1] == i for r in inv), "sub %d" % i)
        ctx.check("not-done-before-final-attempt", not sp["early_done"][0], "sub %d" % i)
        last = inv[min(len(inv), exp_n) - 1]
        ctx.check("callback-once", len(sp["cb"]) == 1, "sub %d callbacks=%d" % (i, len(sp["cb"])))
        if sp["cb"]:
            ctx.check("no-callback-before-final-attempt", sp["cb"][0] >= last["t1"], "sub %d" % i)
        o = outcome(f)
        if last["out"][0] == "value":
            ctx.check("outcome-is-last-attempt", o[0] == "value" and eq_term(o[1], last["out"][1]), "sub %d got %r" % (i, o))
        else:
            ctx.check("outcome-is-last-attempt", o[0] == "error" and o[1] is last["out"][1], "sub %d got %r" % (i, o))
        # back-off: attempt k+1 starts no earlier than t_end(k) + min(sleep*exponent^(k-1), max_sleep)
        for k in range(1, len(inv)):
            d = sleep * (expo ** (k - 1))
            dmin = maxs if bool(maxs < d) else d
            prev, nxt = inv[k - 1], inv[k]
            ctx.check("backoff-not-early", nxt["t0"] >= prev["t1"] + dmin, "sub %d attempt %d started %r after end %r, delay %r" % (
                i, k + 1, nxt["t0"], prev["t1"], dmin))
            if nsub == 1:
                ctx.check("backoff-exact", nxt["t0"] <= prev["t1"] + dmin + K * eps, "sub %d attempt %d started at %r, expected %r" % (
                    i, k + 1, nxt["t0"], prev["t1"] + dmin))
            ctx.reach("retried")
        # policy accounting
        mine = [c for c in calls if c[0] == "should_retry"]
    sr = [c for c in calls if c[0] == "should_retry"]
    by_f = {}
    for c in sr:
        by_f.setdefault(c[2], []).append(c[1])
    total_inv = sum(len(sp["inv"]) for sp in subs)
    ctx.check("policy-consulted-once-per-attempt", len(sr) == total_inv, "should_retry calls %d, finished attempts %d" % (len(sr), total_inv))
    # attempt numbers per submission are 1,2,3,... (delegate futures differ per attempt: group by order)
    seqs = {}
    for sp in subs:
        n = len(sp["inv"])
        seqs[sp["i"]] = list(range(1, n + 1))
    allnums = sorted(c[1] for c in sr)
    ctx.check("policy-attempt-numbers", allnums == sorted(sum(seqs.values(), [])), "should_retry attempts %s" % allnums)
    st = [c for c in calls if c[0] == "sleep_time"]
    n_retries = sum(max(0, len(sp["inv"]) - 1) for sp in subs)
    if not (mode == "raises" and p.get("raise_in") == "sleep_time"):
        ctx.check("sleep_time-once-per-retry", len(st) == n_retries, "sleep_time calls %d, retries %d" % (len(st), n_retries))
    ex.shutdown(wait=True)
    return True


def scn_policy(ctx):
    """ExceptionRetryPolicy by itself, at attempt numbers far beyond what a scheduled program can reach:
    should_retry follows max_attempts / exception_base, sleep_time is min(sleep*exponent^(k-1), max_sleep)."""
    from concurrent.futures import Future
    from fractions import Fraction
    from more_executors.retry import ExceptionRetryPolicy
    attempts = [1, 2, 3, 64, 1023, 1024, 1025, 1026, 1499, 1500]
    k = attempts[ctx.choice(len(attempts), "attempt")]
    expo = [Fraction(2), Fraction(3, 2), Fraction(10), Fraction(1), Fraction(1, 2)][ctx.choice(5, "exponent")]
    pol = ExceptionRetryPolicy(max_attempts=1500, sleep=1.0, exponent=float(expo), max_sleep=120.0)
    f = Future()
    f.set_exception(Retryable("again"))
    try:
        sr = pol.should_retry(k, f)
    except Exception as e:  # noqa
        ctx.check("policy-raises-nothing", False, "should_retry(%d) raised %r" % (k, e))
        return True
    ctx.check("should-retry-until-max-attempts", sr == (k < 1500), "should_retry(%d) = %r with max_attempts=1500" % (k, sr))
    try:
        st = pol.sleep_time(k, f)
    except Exception as e:  # noqa
        ctx.check("policy-raises-nothing", False, "sleep_time(attempt=%d) with exponent %s raised %r (the library then stops retrying)" % (k, expo, e))
        return True
    exact = min(Fraction(1) * expo ** (k - 1), Fraction(120))
    ok = abs(Fraction(st) - exact) <= max(exact, Fraction(1, 10 ** 300)) * Fraction(1, 10 ** 9) if exact > 0 else st == 0
    if exact < Fraction(1, 10 ** 300):
        ok = 0 <= st < 1e-290  # underflow towards zero is the float semantics of the documented formula
    ctx.check("delay-formula", ok, "sleep_time(%d) = %r, min(sleep*exponent^(k-1), max_sleep) = %s" % (k, st, float(exact)))
    ctx.reach("policy-kernel")
    return True


MUST_REACH = {"*": ["retried", "policy-kernel"]}

ASSUMPTIONS = [
    "policy parameters: sleep, max_sleep in [128*eps, 1000], exponent in [1, 8], and in one program (0, 8] with sleep*exponent >= 128*eps; max_attempts in {1,2,3,4}; exception_base as a class, a list, a tuple / list of two classes",
    "'exactly then' is asserted only with one submission (absent contention) as t_start <= t_end + delay + 48*eps",
]
BUDGET = {"quick": 150.0, "thorough": 600.0}
BOUNDS_TEXT = {
    "quick": "P<=1 preemptions; 1 submission on thread_pool(2) and sync; max_attempts 1..4; scripts of 4 outcomes per invocation; raising policy at attempt 1/2",
    "thorough": "P<=2; 2 concurrent submissions; exponent in (0,8]",
}


def plan(tier, seed):
    items = [dict(scenario="policy", params=dict(), bounds=dict(P=0))]
    if tier == "quick":
        items.append(dict(scenario="retry", params=dict(nsub=1, max_attempts=3, base="pool"), bounds=dict(P=1)))
        items.append(dict(scenario="retry", params=dict(nsub=1, max_attempts=2, base="sync", base_list=False), bounds=dict(P=1)))
        items.append(dict(scenario="retry", params=dict(nsub=1, max_attempts=3, base="pool", policy="raises", raise_at=2), bounds=dict(P=0)))
        items.append(dict(scenario="retry", params=dict(nsub=2, max_attempts=2, base="sync"), bounds=dict(P=0)))
        items.append(dict(scenario="retry", params=dict(nsub=1, max_attempts=3, base="sync", exp_ge1=False), bounds=dict(P=0)))
        items.append(dict(scenario="retry", params=dict(nsub=1, max_attempts=2, base="pool", slow_callable=True), bounds=dict(P=0)))
        items.append(dict(scenario="retry", params=dict(nsub=1, max_attempts=3, base="sync", policy="raises", raise_in="sleep_time", raise_at=1), bounds=dict(P=0)))
        items.append(dict(scenario="retry", params=dict(nsub=1, max_attempts=1, base="pool"), bounds=dict(P=1)))
        items.append(dict(scenario="retry", params=dict(nsub=1, max_attempts=2, base="sync", huge_sleep=True), bounds=dict(P=0)))
        items.append(dict(scenario="retry", params=dict(nsub=1, max_attempts=2, base="sync", falsy_policy=True), bounds=dict(P=0)))
        items.append(dict(scenario="retry", params=dict(nsub=1, max_attempts=4, base="sync", base_form="tuple2"), bounds=dict(P=0)))
        items.append(dict(scenario="retry", params=dict(nsub=1, max_attempts=2, base="sync", base_form="list2"), bounds=dict(P=0)))
    else:
        items.append(dict(scenario="retry", params=dict(nsub=1, max_attempts=3, base="pool", exp_ge1=False), bounds=dict(P=2)))
        items.append(dict(scenario="retry", params=dict(nsub=1, max_attempts=3, base="sync"), bounds=dict(P=2)))
        items.append(dict(scenario="retry", params=dict(nsub=2, max_attempts=3, base="pool"), bounds=dict(P=1)))
        items.append(dict(scenario="retry", params=dict(nsub=1, max_attempts=3, base="pool", policy="raises", raise_at=1), bounds=dict(P=1)))
        items.append(dict(scenario="retry", params=dict(nsub=1, max_attempts=3, base="pool", policy="raises", raise_at=2), bounds=dict(P=1)))
    return items
