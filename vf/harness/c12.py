"""C12 — worker threads and references are reclaimed; pending futures keep working."""
from __future__ import annotations

import gc
import weakref

from vf.harness.common import *  # noqa
from vf.harness.entries import finish, Boom
from vf.engine import sched

PROPERTY = "C12"
K = 64
PREFIX = {"retry": "RetryExecutor-", "poll": "PollExecutor-", "throttle": "ThrottleExecutor-", "timeout": "TimeoutExecutor-"}


def _build(kind, me, sleep=0.5):
    from more_executors import Executors
    if kind == "retry":
        return Executors.with_retry(me, max_attempts=2, sleep=sleep)
    if kind == "poll":
        def poll_fn(ds):
            for d in ds:
                if getattr(d.result, "poison", False):
                    raise Boom("poll function fails")
                d.yield_result(d.result)
        return Executors.with_poll(me, poll_fn, default_interval=50.0)
    if kind == "throttle":
        return Executors.with_throttle(me, 1)
    if kind == "timeout":
        return Executors.with_timeout(me, 500)
    raise ValueError(kind)


def _worker(ctx, kind):
    return [t for t in ctx.sched.threads if t.name.startswith(PREFIX[kind])]


def scn_threads(ctx):
    """The executor's worker thread exits promptly (not via a fallback timer) after shutdown(),
    after the last reference is dropped without shutdown, and when the interpreter-exit hook
    runs - at a scheduler-chosen moment of the worker loop's iteration."""
    try:
        from more_executors._impl.event import GLOBAL_HANDLER
        exit_hook = GLOBAL_HANDLER.on_exiting
    except (ImportError, AttributeError):  # anchor absent after a refactoring: find the registered atexit hook instead
        exit_hook = None

    p = ctx.params
    kind = p["kind"]
    eps = ctx.eps
    ev = ctx.ev
    how = ("shutdown", "drop", "exit-hook")[ctx.choice(3, "how")]
    me = ManualExecutor(ev)
    box = [_build(kind, me, 50.0 if p.get("backoff") else 0.5)]
    did_work = bool(ctx.choice(2, "did-work"))
    if p.get("backoff"):
        # a retried job is waiting out its back-off; the user then drops the future as well
        did_work = False
        f = box[0].submit(lambda: 1)
        sched.vsleep_until(sched.now() + 0.25)
        for d in list(me.submitted):
            finish(d, "error", exc=Boom("first attempt"))
        sched.vsleep_until(sched.now() + 0.01)
        d = None
        del f, d
    if did_work:
        f = box[0].submit(lambda: 1)
        sched.vsleep_until(sched.now() + 0.25)
        for d in list(me.submitted):
            finish(d, "value", 1)
        wait_done(f, sched.now() + 5)
        d = None
        del f, d
    kept = []
    if p.get("kept_cancelled"):
        # a future cancelled while its callable was queued in the delegate - and the user keeps that future
        f = box[0].submit(lambda: 1)
        sched.vsleep_until(sched.now() + 0.25)
        f.cancel()
        for d in list(me.submitted):
            finish(d, "cancel")  # the delegate dequeues the cancelled work item
        sched.vsleep_until(sched.now() + 0.25)
        kept.append(f)
        d = None
        del f, d
    if p.get("kept_failed"):
        # a future that failed because the poll function raised - and the user keeps that future
        res = Obj("poisoned")
        res.poison = True
        f = box[0].submit(lambda: 1)
        sched.vsleep_until(sched.now() + 0.25)
        for d in list(me.submitted):
            finish(d, "value", res)
        wait_done(f, sched.now() + 5)
        kept.append(f)
        d = None
        res = None
        del f, d, res
    t_act = [None]

    def actor():
        sched.point()
        t_act[0] = sched.now()
        if how == "shutdown":
            box[0].shutdown(wait=False)
        elif how == "drop":
            box[0] = None
        elif exit_hook is not None:
            exit_hook()
        else:
            box[0].shutdown(wait=False)  # anchor absent: degrade to the shutdown case
        t_act[0] = sched.now()

    a = spawn("actor", actor)
    a.join(BIG)
    ev.items[:] = []
    me.submitted[:] = []
    if how == "drop":
        gc.collect()  # the user cannot rely on it, but it must at least suffice
    sched.vsleep_until(sched.now() + K * eps)
    ws = _worker(ctx, kind)
    ctx.check("worker-thread-exists", len(ws) == 1, [t.name for t in ctx.sched.threads])
    for w in ws:
        ctx.check("worker-thread-exits-promptly", w.finished, "%s still alive %d eps after %s (state: %s)" % (w.name, K, how, w.pending and w.pending[0]))
        ctx.reach("exit-checked-" + how)
    del kept[:]
    return True


class Fn(object):
    def __init__(self, tag):
        self.tag = tag

    def __call__(self, *a, **kw):
        return None


class Obj(object):
    def __init__(self, tag):
        self.tag = tag


def scn_refs(ctx):
    """After a history of completed / failed / cancelled-in-flight / cancelled-while-queued
    futures the library keeps no reference to the callable, its arguments, the result or the
    future, while the executor lives on."""
    p = ctx.params
    kind = p["kind"]
    ev = ctx.ev
    me = ManualExecutor(ev)
    ex = _build(kind, me)
    refs = {}
    hist = []
    n = p.get("n", 2)
    for i in range(n):
        fates = ("complete", "fail", "cancel-early", "cancel-in-flight") + (("poll-raises",) if kind == "poll" else ()) + (
            ("delegate-refuses",) if kind in ("retry", "throttle") else ())
        how = fates[ctx.choice(len(fates), "how%d" % i)]
        hist.append(how)
        fn, arg, res = Fn(i), Obj(("arg", i)), Obj(("res", i))
        if how == "delegate-refuses":
            me.refuse = True  # the executor below raises from submit(): that arrives in the layer's worker thread
        f = ex.submit(fn, arg, key=arg)
        refs["fn%d" % i] = weakref.ref(fn)
        refs["arg%d" % i] = weakref.ref(arg)
        refs["res%d" % i] = weakref.ref(res)
        refs["future%d" % i] = weakref.ref(f)
        ds = None
        if how == "cancel-early":
            f.cancel()
        elif how == "delegate-refuses":
            wait_done(f, sched.now() + 5)
            me.refuse = False
        else:
            sched.vsleep_until(sched.now() + 0.25)  # let the layer hand it to the delegate
            ds = [d for d in me.submitted if not d.done()]
            if how == "cancel-in-flight":
                f.cancel()
            elif how == "complete":
                for d in ds:
                    finish(d, "value", res)
            elif how == "poll-raises":
                res.poison = True
                for d in ds:
                    finish(d, "value", res)
            else:
                for d in ds:
                    finish(d, "error", exc=Boom(res))
                sched.vsleep_until(sched.now() + 1)  # retry: second attempt
                for d in [d for d in me.submitted if not d.done()]:
                    finish(d, "error", exc=Boom(res))
        wait_done(f, sched.now() + 5)
        done = f.done()
        # whatever is still held by the manual delegate is finished/dropped like a real executor would
        for d in me.submitted:
            if not d.done():
                finish(d, "cancel")
            d.fn = d.args = d.kwargs = None
        me.submitted[:] = []
        ev.items[:] = []
        ctx.check("history-step-finished", done, "future %d (%s) not done" % (i, how))
        ds = None
        del fn, arg, res, f, ds
    sched.vsleep_until(sched.now() + 2)
    d = None
    gc.collect()
    for name, r in sorted(refs.items()):
        if name.startswith("res") and hist[int(name[3:])] not in ("complete", "fail", "poll-raises"):
            continue
        ctx.check("no-reference-kept", r() is None, "%s still referenced after history %s (executor %s alive)" % (name, hist, kind))
    ctx.reach("refs-checked")
    ex.shutdown(wait=True)
    return True


def scn_pending_outlives(ctx):
    """A pending future completes after the user dropped the executor, and the worker thread
    exits once nothing is pending any more."""
    p = ctx.params
    kind = p["kind"]
    eps = ctx.eps
    ev = ctx.ev
    me = ManualExecutor(ev)
    ex = _build(kind, me)
    f = ex.submit(lambda: 1)
    sched.vsleep_until(sched.now() + 0.25)
    drop_at = ctx.choice(2, "drop-before-delegate-done")
    ex = None
    gc.collect()
    sched.vsleep_until(sched.now() + 0.25)
    ws = _worker(ctx, kind)
    for d in list(me.submitted):
        finish(d, "value", 41)
    wait_done(f, sched.now() + 60)
    ctx.check("pending-future-completes-after-drop", outcome(f) == ("value", 41), "%s: %r" % (kind, outcome(f)))
    t = sched.now()
    del f, d
    me.submitted[:] = []
    ev.items[:] = []
    gc.collect()
    sched.vsleep_until(t + K * eps)
    for w in ws:
        ctx.check("worker-exits-when-nothing-pending", w.finished, "%s still alive" % w.name)
    ctx.reach("outlive-checked")
    return True


ASSUMPTIONS = ["the real interpreter finalisation sequence and cyclic-GC timing cannot be executed symbolically: the registered exit hook (GLOBAL_HANDLER.on_exiting) is called directly, and gc.collect() is called by the scenario after the user dropped its references",
               "CPython reference counting is real under engine S: weakref callbacks fire in whichever simulated thread drops the last reference"]
BOUNDS_TEXT = {"quick": "4 executor kinds with worker threads; exit by shutdown/drop/exit-hook at a scheduler-chosen point (P<=2); reference histories of 2 futures x 4 fates (P=0); pending-outlives (P<=1)",
               "thorough": "P<=3; histories of 3"}
MUST_REACH = {"*": ["exit-checked-shutdown", "exit-checked-drop", "exit-checked-exit-hook", "refs-checked", "outlive-checked"]}
BUDGET = {"quick": 150.0, "thorough": 600.0}


def plan(tier, seed):
    q = tier == "quick"
    items = []
    for k in ("retry", "poll", "throttle", "timeout"):
        items.append(dict(scenario="threads", params=dict(kind=k), bounds=dict(P=3 if q else 5)))
        if k == "retry":
            items.append(dict(scenario="threads", params=dict(kind=k, backoff=True), bounds=dict(P=1 if q else 2)))
        items.append(dict(scenario="threads", params=dict(kind=k, kept_cancelled=True), bounds=dict(P=1 if q else 2)))
        if k == "poll":
            items.append(dict(scenario="threads", params=dict(kind=k, kept_failed=True), bounds=dict(P=1 if q else 2)))
        items.append(dict(scenario="refs", params=dict(kind=k, n=2 if q else 3), bounds=dict(P=0)))
        items.append(dict(scenario="pending_outlives", params=dict(kind=k), bounds=dict(P=2 if q else 3)))
    return items
