"""C02 — every returned future obeys the concurrent.futures.Future protocol."""
from __future__ import annotations

import concurrent.futures as cf
from concurrent.futures import CancelledError, TimeoutError as FTimeout

from vf.harness.common import *  # noqa
from vf.harness import entries
from vf.engine import sched

PROPERTY = "C02"
K = 48
OPS = ["cancel", "cb", "result", "exception", "wait", "as_completed"]
W = 100  # timeout of blocking observers (virtual seconds); needing it is a violation


def scn_proto(ctx):
    """One future from entry point `entry`; client thread A performs one op chosen from all six,
    client thread B one of {cancel, add_done_callback} (or two ops when ops=3); a completer
    finishes the underlying work by value / exception (/ input-cancel for combinators)."""
    p = ctx.params
    name = p["entry"]
    eps = ctx.eps
    ev = ctx.ev
    kinds = ["value", "error"] + (["cancel"] if p.get("input_cancel") else [])
    if p.get("kinds_only"):
        kinds = list(p["kinds_only"])
    kind = kinds[ctx.choice(len(kinds), "kind")]
    e = entries.build(ctx, name)
    f = e.fut
    t_done = []
    cb_runs = {}
    obs = []  # observations

    def first_cb(_f):
        t_done.append(sched.now())
        cb_runs.setdefault("first", []).append((sched.now(), _f.done()))

    f.add_done_callback(first_cb)

    def do_op(who, op):
        t0 = sched.now()
        rec = dict(who=who, op=op, t0=t0, done_before=f.done())
        try:
            if op == "cancel":
                rec["ret"] = f.cancel()
            elif op == "cb":
                key = "%s.%d" % (who, len(obs))
                rec["key"] = key
                f.add_done_callback(lambda _f, key=key: cb_runs.setdefault(key, []).append((sched.now(), _f.done())))
            elif op == "result":
                try:
                    rec["val"] = ("value", f.result(W))
                except CancelledError:
                    rec["val"] = ("cancelled",)
                except FTimeout:
                    rec["val"] = ("timeout",)
                except Exception as x:  # noqa
                    rec["val"] = ("error", x)
            elif op == "exception":
                try:
                    rec["val"] = ("exc", f.exception(W))
                except CancelledError:
                    rec["val"] = ("cancelled",)
                except FTimeout:
                    rec["val"] = ("timeout",)
            elif op == "wait":
                d, nd = cf.wait([f], timeout=W)
                rec["val"] = ("released",) if f in d else ("timeout",)
            elif op == "as_completed":
                try:
                    got = list(cf.as_completed([f], timeout=W))
                    rec["val"] = ("released",) if got == [f] else ("odd", got)
                except FTimeout:
                    rec["val"] = ("timeout",)
        except BaseException as x:  # noqa
            if not isinstance(x, Exception):
                raise
            rec["raised"] = x
        rec["t1"] = sched.now()
        rec["out_after"] = outcome(f)
        obs.append(rec)

    opsA = [OPS[ctx.choice(len(OPS), "opA")]] if not p.get("fixA") else list(p["fixA"])
    opsB = [("cancel", "cb")[ctx.choice(2, "opB")]] if not p.get("fixB") else list(p["fixB"])
    if p.get("ops", 2) >= 3:
        opsB.append(("cancel", "cb")[ctx.choice(2, "opB2")])

    def client(who, ops):
        for op in ops:
            sched.point()
            do_op(who, op)

    comp = spawn("completer", e.complete, kind)
    a = spawn("A", client, "A", opsA)
    b = spawn("B", client, "B", opsB)
    for t in (a, b):
        t.join(BIG)
    wait_done(f, sched.now() + 20)
    e.stop()
    comp.join(50)
    # done() turns true before the done-callbacks have run: let the resolving thread finish them
    sched.vsleep_until(sched.now() + 8 * eps)
    final = outcome(f)
    ctx.check("future-finishes", final[0] != "pending", "%s future still pending after the underlying work finished (%s)" % (name, kind))
    for rec in obs:
        op = rec["op"]
        if "raised" in rec:
            ctx.check("%s-raises-nothing" % op, False, "%s.%s() raised %r" % (name, op, rec["raised"]))
            continue
        if op == "cancel":
            r = rec["ret"]
            ctx.check("cancel-returns-bool", isinstance(r, bool), repr(r))
            if r is True:
                ctx.reach("cancel-true")
                ctx.check("cancel-true-means-cancelled", rec["out_after"] == ("cancelled",) and final == ("cancelled",),
                          "%s: cancel() returned True but outcome %r / final %r" % (name, rec["out_after"], final))
            else:
                ctx.reach("cancel-false")
            if rec["done_before"] and rec["out_after"][0] in ("value", "error"):
                ctx.check("cancel-false-when-finished", r is False, "%s: cancel() on a finished future returned %r" % (name, r))
        if op in ("result", "exception", "wait", "as_completed"):
            v = rec["val"]
            ctx.check("waiter-released", v[0] != "timeout", "%s: %s() was not released by completion (%s, final %r)" % (name, op, kind, final))
            if v[0] != "timeout" and t_done:
                ctx.check("waiter-released-promptly", rec["t1"] <= (t_done[0] if bool(t_done[0] >= rec["t0"]) else rec["t0"]) + K * eps,
                          "%s: %s() returned at %r, future done at %r" % (name, op, rec["t1"], t_done[0]))
                ctx.reach("waiter-checked")
            if op == "result" and v[0] != "timeout":
                if final[0] == "value":
                    ctx.check("result-matches", v[0] == "value" and v[1] == final[1], "%r vs %r" % (v, final))
                elif final[0] == "error":
                    ctx.check("result-matches", v[0] == "error" and v[1] is final[1], "%r vs %r" % (v, final))
                elif final[0] == "cancelled":
                    ctx.check("result-matches", v[0] == "cancelled", "%r vs %r" % (v, final))
        # outcome never changes once terminal
        if rec["out_after"][0] != "pending":
            same = rec["out_after"][0] == final[0] and (len(final) < 2 or rec["out_after"][1] is final[1] or rec["out_after"][1] == final[1])
            ctx.check("outcome-stable", same, "%s: observed %r, later %r" % (name, rec["out_after"], final))
    if final[0] != "pending":
        for key, runs in cb_runs.items():
            ctx.check("callback-exactly-once", len(runs) == 1, "%s: callback %s ran %d times" % (name, key, len(runs)))
            ctx.check("callback-sees-done", all(d for (_t, d) in runs), "%s: callback %s ran before done" % (name, key))
        for rec in obs:
            if rec["op"] == "cb" and "key" in rec:
                ctx.check("callback-exactly-once", len(cb_runs.get(rec["key"], [])) == 1,
                          "%s: callback added by %s ran %d times" % (name, rec["who"], len(cb_runs.get(rec["key"], []))))
    e.close()
    return True


ASSUMPTIONS = [
    "histories: thread A one op of {cancel, add_done_callback, result, exception, wait, as_completed}, thread B one (thorough: two) of {cancel, add_done_callback}, one completer; completion by value / exception (+ cancellation of an input for the f_* combinators)",
    "blocking observers use a 100 s virtual timeout; needing it is reported as a violation",
]
BOUNDS_TEXT = {"quick": "18 entry points x 2-3 completion kinds x 12 op pairs; P<=1", "thorough": "3 ops; P<=2"}
MUST_REACH = {"*": ["cancel-true", "cancel-false", "waiter-checked"]}
BUDGET = {"quick": 200.0, "thorough": 600.0}


def scn_diamond(ctx):
    """Two futures derived from the same source, combined again: a = f_map(src), b = f_map(src),
    z = combinator(a, b).  Cancelling any of them walks the graph back to the caller (a.cancel() ->
    src cancelled -> b cancelled -> z cancelled -> a.cancel() again, nested).  cancel() returns a
    bool and raises nothing; afterwards every future of the graph is done."""
    from more_executors import futures as F
    p = ctx.params
    ev = ctx.ev
    src = RecFuture(ev, "src")
    a = F.f_map(src, lambda x: x)
    b = F.f_map(src, lambda x: x)
    comb = ("f_zip", "f_and", "f_or", "f_sequence")[ctx.choice(4, "combinator")]
    if comb == "f_sequence":
        z = F.f_sequence([a, b])
    else:
        z = getattr(F, comb)(a, b)
    target = (("a", a), ("b", b), ("z", z))[ctx.choice(3, "cancel-which")]
    try:
        r = target[1].cancel()
        ctx.check("cancel-returns-bool", isinstance(r, bool), "%s.cancel() returned %r" % (target[0], r))
    except Exception as x:  # noqa
        ctx.check("cancel-raises-nothing", False, "%s.cancel() in a diamond (%s over two f_map of one source) raised %r" % (target[0], comb, x))
        r = None
    if r is True:
        ctx.check("cancelled-stays-cancelled", target[1].cancelled(), "%s.cancel() returned True, state %s" % (target[0], target[1]._state))
    entries.finish(src, "value", 1)  # (a no-op if the source was cancelled)
    sched.vsleep_until(sched.now() + 8 * ctx.eps)
    for nm, f_ in (("a", a), ("b", b), ("z", z)):
        ctx.check("future-finishes", f_.done(), "%s still pending" % nm)
    ctx.reach("diamond-checked")
    return True


def plan(tier, seed):
    items = []
    for n in entries.ALL_ENTRIES:
        prm = dict(entry=n)
        if n in entries.FN_ENTRIES or n in entries.F1_ENTRIES:
            prm["input_cancel"] = n in entries.FN_ENTRIES
        if tier == "quick":
            items.append(dict(scenario="proto", params=prm, bounds=dict(P=0 if n in ("retry", "poll", "throttle", "timeout") else 1)))
        else:
            items.append(dict(scenario="proto", params=dict(prm, ops=3), bounds=dict(P=1 if n in ("retry", "poll", "throttle", "timeout") else 2)))
    # focused races add_done_callback / result vs cancel at a deeper bound, with scheduling points after releases
    for n in ("map", "f_map", "f_zip", "retry", "poll", "throttle"):
        heavy = n in ("retry", "poll", "throttle")
        for fa in (["cb"], ["wait"]):
            items.append(dict(scenario="proto", params=dict(entry=n, fixA=fa, fixB=["cancel"], input_cancel=False),
                              bounds=dict(P=(1 if heavy else 2) if tier == "quick" else (2 if heavy else 3), post_release=True)))
    # line mode: every source line of the future classes is a scheduling point, so that a completion can
    # land between a check of an attribute and its use inside cancel()
    # the underlying (delegate) future is cancelled by someone else while cancel() is called on the derived future
    for n in ("retry", "map", "poll", "throttle", "timeout", "flat_map", "cancel_on_shutdown"):
        items.append(dict(scenario="proto", params=dict(entry=n, fixA=["cancel"], fixB=["cb"], input_cancel=True, kinds_only=["cancel"]),
                          bounds=dict(P=1 if tier == "quick" else 2, post_release=True)))
    items.append(dict(scenario="diamond", params=dict(), bounds=dict(P=0)))
    lm = [("map", ["_impl/map.py"]), ("f_map", ["_impl/map.py"])]
    if tier != "quick":
        lm += [("timeout", ["_impl/map.py", "_impl/common.py"]), ("throttle", ["_impl/throttle.py", "_impl/map.py"]),
               ("f_zip", ["_impl/futures/base.py", "_impl/futures/zip.py"]), ("map", ["_impl/map.py", "_impl/common.py"])]
    for n, files in lm:
        items.append(dict(scenario="proto", params=dict(entry=n, fixA=["cancel"], fixB=["cancel"], input_cancel=False),
                          bounds=dict(P=1, line_files=files)))
    return items
