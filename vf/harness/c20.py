"""C20 — metrics: gauges return to reality at quiescence, counters match events."""
from __future__ import annotations

import os

from vf.harness.common import *  # noqa
from vf.harness.entries import finish, Boom
from vf.engine import sched

PROPERTY = "C20"
WORKER_ENV = {"VERIF_EXTRA_PATH": os.path.join(os.path.dirname(os.path.dirname(os.path.abspath(__file__))), "standin"),
              "MORE_EXECUTORS_PROMETHEUS": "1"}
MENU = ["submit", "finish-ok", "finish-fail", "cancel-newest", "sleep", "start-oldest"]


def scn_metrics(ctx):
    """A history of `steps` operations chosen by the explorer (submit, finish the oldest pending
    delegate future by value / exception, cancel the newest unfinished future, let 1 s pass) on
    one executor over a manual delegate; then quiescence (optionally shutdown) and comparison of
    every metric with what is really pending / alive / queued and with the event log."""
    import prometheus_client as P
    from more_executors import Executors
    from more_executors._impl.metrics import metrics

    ctx.check("prometheus-metrics-live", type(metrics).__name__ == "PrometheusMetrics", type(metrics).__name__)
    P.reset()
    p = ctx.params
    kind = p["kind"]
    steps = p.get("steps", 4)
    ev = ctx.ev
    me = ManualExecutor(ev)
    npolls = [0, 0]

    def poll_fn(ds):
        npolls[0] += 1
        for d in ds:
            if d.result == "poison":
                npolls[1] += 1
                raise Boom("poll fails")
            d.yield_result(d.result)

    if kind == "retry":
        ex = Executors.with_retry(me, max_attempts=2, sleep=0.5, name="m")
    elif kind == "throttle":
        ex = Executors.with_throttle(me, 1, name="m")
    elif kind == "poll":
        ex = Executors.with_poll(me, poll_fn, default_interval=0.5, name="m")
    elif kind == "timeout":
        ex = Executors.with_timeout(me, 1.5, name="m")
    elif kind == "cancel_on_shutdown":
        ex = Executors.with_cancel_on_shutdown(me, name="m")
    elif kind == "map":
        ex = Executors.with_map(me, lambda x: x, name="m")
    elif kind == "throttle+retry":
        ex = Executors.with_retry(Executors.with_throttle(me, 1, name="m"), max_attempts=2, sleep=0.5, name="m")
    else:
        raise ValueError(kind)
    types = {"retry": ["retry"], "throttle": ["throttle"], "poll": ["poll"], "timeout": ["timeout"], "cancel_on_shutdown": [],
             "map": ["map"], "throttle+retry": ["retry", "throttle"]}[kind]
    futs = []
    cancels = []
    settle = 0.125
    for s in range(steps):
        op = MENU[ctx.choice(len(MENU), "op%d" % s)]
        if op == "submit":
            futs.append(ex.submit(lambda: 1))
        elif op in ("finish-ok", "finish-fail"):
            pend = [d for d in me.submitted if not d.done()]
            if pend:
                if op == "finish-ok":
                    finish(pend[0], "value", "poison" if (kind == "poll" and ctx.choice(2, "poison%d" % s)) else 1)
                else:
                    finish(pend[0], "error", exc=Boom("fail"))
        elif op == "start-oldest":
            pend = [d for d in me.submitted if not d.done() and not d.running()]
            if pend:
                pend[0].set_running_or_notify_cancel()  # the callable is running now: cancel attempts are refused
        elif op == "cancel-newest":
            un = [f for f in futs if not f.done()]
            if un:
                cancels.append(un[-1].cancel())
        else:
            sched.vsleep_until(sched.now() + 1)
        sched.vsleep_until(sched.now() + settle)
    # quiescence: finish whatever the delegate still holds, wait for the layer to react
    do_shutdown = bool(ctx.choice(2, "shutdown"))
    if not do_shutdown:
        for _ in range(4):
            for d in list(me.submitted):
                if not d.done():
                    finish(d, "value", 1)
            sched.vsleep_until(sched.now() + 2)
    else:
        ex.shutdown(wait=True)
        ex.shutdown(wait=True)  # a repeated shutdown changes no metric
        sched.vsleep_until(sched.now() + 1)
    G = P.get
    ctx.check("gauges-never-negative", not P.NEGATIVE, P.NEGATIVE[:3])
    own = [f for f in futs]
    for t in types[:1] if kind != "throttle+retry" else ["retry"]:
        pending = sum(1 for f in own if not f.done())
        ctx.check("future_inprogress", G("future_inprogress", t, "m") == pending, "%s: gauge %s, really pending %d" % (t, G("future_inprogress", t, "m"), pending))
        ctx.check("future_total", G("future_total", t, "m") == len(own), "%s: counter %s, created %d" % (t, G("future_total", t, "m"), len(own)))
        ncanc = sum(1 for f in own if f.cancelled())
        nerr = sum(1 for f in own if f.done() and not f.cancelled() and f.exception() is not None)
        ctx.check("future_cancel", G("future_cancel", t, "m") == ncanc, "%s: counter %s, cancelled %d" % (t, G("future_cancel", t, "m"), ncanc))
        ctx.check("future_error", G("future_error", t, "m") == nerr, "%s: counter %s, failed %d" % (t, G("future_error", t, "m"), nerr))
        ctx.reach("future-metrics-checked")
    alive = 0 if do_shutdown else 1
    for t in (types if types else ["cancel_on_shutdown"]):
        ctx.check("exec_inprogress", G("exec_inprogress", t, "m") == alive, "%s: gauge %s, alive %d" % (t, G("exec_inprogress", t, "m"), alive))
        ctx.check("exec_total", G("exec_total", t, "m") == 1, G("exec_total", t, "m"))
    if "retry" in types:
        rex = ex
        jobs = getattr(rex, "_jobs", None)
        if jobs is not None:  # white-box anchor; absent after a refactoring => only the API-level comparison below
            ctx.check("retry_queue-matches-structure", G("retry_queue", "m") == len(jobs), "gauge %s, len(_jobs) %d" % (G("retry_queue", "m"), len(jobs)))
        else:
            ctx.reach("anchor-absent")
        pending = sum(1 for f in own if not f.done())
        if not do_shutdown:
            ctx.check("retry_queue-matches-pending", G("retry_queue", "m") == pending, "gauge %s, unfinished retry futures %d" % (G("retry_queue", "m"), pending))
        if kind == "retry":
            nsub = len(me.submitted)
            firsts = sum(1 for f in own if True)
            started = len([1 for f in own]) if False else None
            # re-submissions = delegate submissions beyond the first one of each future that reached the delegate
            per = {}
            for e in ev.of("delegate_submit"):
                per[id(e["fn"])] = per.get(id(e["fn"]), 0) + 1
            resub = sum(v - 1 for v in per.values())
            ctx.check("retry_total", G("retry_total", "m") == resub, "counter %s, re-submissions %d" % (G("retry_total", "m"), resub))
            ctx.reach("retry-metrics-checked")
    if "throttle" in types:
        tex = ex if kind == "throttle" else getattr(ex, "_delegate", None)
        queue = getattr(tex, "_to_submit", None)
        # harness-level count: futures of the throttle layer that are neither done nor handed to the delegate
        if queue is not None:
            ctx.check("throttle_queue-matches-structure", G("throttle_queue", "m") == len(queue), "gauge %s, len(queue) %d" % (G("throttle_queue", "m"), len(queue)))
        else:
            ctx.reach("anchor-absent")
        if kind == "throttle" and not do_shutdown and all(f.done() for f in own):
            ctx.check("throttle_queue-empty-at-quiescence", G("throttle_queue", "m") == 0, "gauge %s although every future is finished" % G("throttle_queue", "m"))
        ctx.reach("throttle-metrics-checked")
    if kind == "poll":
        ctx.check("poll_total", G("poll_total", "m") == npolls[0], "counter %s, poll calls %d" % (G("poll_total", "m"), npolls[0]))
        ctx.check("poll_error", G("poll_error", "m") == npolls[1], "counter %s, raising poll calls %d" % (G("poll_error", "m"), npolls[1]))
    if kind == "timeout":
        by_timeout = [e for e in ev.of("cancel_call") if e["th"].startswith("TimeoutExecutor-") and e["result"]]
        ctx.check("timeout-counter", G("timeout", "m") == len(by_timeout), "counter %s, timeouts that cancelled %d" % (G("timeout", "m"), len(by_timeout)))
        if by_timeout:
            ctx.reach("timeout-counted")
    if kind == "cancel_on_shutdown":
        swept = [e for e in ev.of("cancel_call") if e["result"]] if do_shutdown else []
        user = sum(1 for c in cancels if c)
        ctx.check("shutdown_cancel", G("shutdown_cancel", "m") == max(0, len(swept) - user), "counter %s, swept %d (user cancels %d)" % (G("shutdown_cancel", "m"), len(swept), user))
    if not do_shutdown:
        ex.shutdown(wait=True)
    return True


ASSUMPTIONS = ["a stand-in prometheus_client (Counter/Gauge with labels/inc/dec and a registry) is first on sys.path so that PrometheusMetrics is live; histories are sequential (one client thread) with 0.125 s settling pauses; quiescence = everything the delegate holds is finished, or shutdown(wait=True)",
               "retry_queue / throttle_queue are compared with the real structures (white-box, anchor-absent if renamed) and with the harness's own count"]
BOUNDS_TEXT = {"quick": "7 executor kinds x histories of 4 operations from a menu of 5 x {quiesce, shutdown}; P=0", "thorough": "histories of 5 operations; P<=1"}
MUST_REACH = {"*": ["future-metrics-checked", "retry-metrics-checked", "throttle-metrics-checked"]}
BUDGET = {"quick": 150.0, "thorough": 600.0}


def scn_combinators(ctx):
    """'... and combinators': after a few f_* calls have finished and every future has been dropped,
    the executors-in-use gauge equals the number of executors that are still alive, and the
    futures-in-progress gauges are back to zero."""
    import gc
    import prometheus_client as P
    from more_executors import futures as F
    from more_executors._impl.metrics import metrics

    ctx.check("prometheus-metrics-live", type(metrics).__name__ == "PrometheusMetrics", type(metrics).__name__)
    P.reset()
    TYPES = ("map", "flat_map", "sync", "timeout", "retry", "poll", "throttle")
    which = ("f_map", "f_flat_map", "f_sequence", "f_apply", "f_zip", "f_or")[ctx.choice(6, "combinator")]
    n = 1 + ctx.choice(2, "calls")
    for i in range(n):
        a, b = F.f_return(i), F.f_return(i + 1)
        if which == "f_map":
            out = F.f_map(a, lambda x: x)
        elif which == "f_flat_map":
            out = F.f_flat_map(a, lambda x: F.f_return(x))
        elif which == "f_sequence":
            out = F.f_sequence([a, b])
        elif which == "f_apply":
            out = F.f_apply(F.f_return(lambda x, y: (x, y)), a, b)
        elif which == "f_zip":
            out = F.f_zip(a, b)
        else:
            out = F.f_or(a, b)
        ctx.check("combinator-finishes", out.done(), which)
        del out, a, b
    gc.collect()
    ctx.check("gauges-never-negative", not P.NEGATIVE, P.NEGATIVE[:3])
    # nothing made by these calls is alive any more: whatever the gauge counted for them must be gone
    leaked = dict((t, P.get("exec_inprogress", t, "internal")) for t in TYPES if P.get("exec_inprogress", t, "internal"))
    ctx.check("exec_inprogress-after-" + which, not leaked,
              "%d call(s) of %s, everything dropped: executors-in-use gauge still counts %s (executor='internal')" % (n, which, leaked))
    ctx.reach("combinator-gauges-checked")
    return True


def plan(tier, seed):
    q = tier == "quick"
    items = []
    for k in ("retry", "throttle", "poll", "timeout", "cancel_on_shutdown", "map", "throttle+retry"):
        items.append(dict(scenario="metrics", params=dict(kind=k, steps=(4 if k == "throttle+retry" else 5) if q else (5 if k == "throttle+retry" else 6)), bounds=dict(P=0)))
    items.append(dict(scenario="combinators", params=dict(), bounds=dict(P=0)))
    if not q:
        for k in ("retry", "throttle"):
            items.append(dict(scenario="metrics", params=dict(kind=k, steps=3), bounds=dict(P=1)))
    return items
