"""C06 — cancel: True means the work never starts; it stops retries; it propagates."""
from __future__ import annotations

from vf.harness.common import *  # noqa
from vf.harness import entries
from vf.engine import sched

PROPERTY = "C06"


def scn_cancel(ctx):
    """One future from a stack / combinator; 1-2 canceller threads call cancel() 1-2 times at
    scheduler-chosen points while a worker really runs the callable (which fails `fails` times
    so that retry layers retry)."""
    p = ctx.params
    name = p["entry"]
    ncanc = p.get("cancellers", 1)
    ncalls = p.get("calls", 1)
    fails = p.get("fails", 1)
    ev = ctx.ev
    inv = []

    def fn():
        k = len(inv)
        inv.append(k)
        ev.add("callable_start", k=k)
        sched.point()
        ev.add("callable_end", k=k)
        if k < fails:
            raise entries.Boom("attempt %d fails" % k)
        return 40 + k

    is_fn = name in entries.F1_ENTRIES or name in entries.FN_ENTRIES
    e = entries.build(ctx, name, fn=fn)
    f = e.fut
    rets = []

    def canceller(i):
        for j in range(ncalls):
            sched.point()
            ev.add("cancel_call_derived", i=i)
            try:
                r = f.cancel()
            except Exception as x:  # noqa
                ev.add("cancel_raised", i=i, exc=repr(x))
                rets.append(("raised", x))
                continue
            ev.add("cancel_ret", i=i, result=r, state=[(d.tag, d._state) for d in e.inputs])
            rets.append(("ret", r))

    comp = spawn("worker", e.complete, "value" if is_fn else "run")
    cs = [spawn("canceller%d" % i, canceller, i) for i in range(ncanc)]
    for t in cs:
        t.join(BIG)
    wait_done(f, sched.now() + 50)
    e.stop()
    comp.join(50)
    fin = outcome(f)
    for kind, v in rets:
        if kind == "raised":
            ctx.check("cancel-raises-nothing", False, "%s: cancel() raised %r" % (name, v))
    items = ev.items
    true_rets = [x for x in items if x["k"] == "cancel_ret" and x["result"] is True]
    any_rets = [x for x in items if x["k"] == "cancel_ret"]
    if true_rets:
        ctx.reach("cancel-true")
        s0 = true_rets[0]["seq"]
        late_start = [x for x in items if x["k"] == "callable_start" and x["seq"] > s0]
        late_submit = [x for x in items if x["k"] == "delegate_submit" and x["seq"] > s0]
        ctx.check("no-start-after-successful-cancel", not late_start, "%s: callable started after cancel() returned True" % name)
        ctx.check("no-delegate-submit-after-successful-cancel", not late_submit, "%s: delegate.submit after cancel() returned True" % name)
        ctx.check("stays-cancelled", fin == ("cancelled",), "%s: cancel() returned True, final outcome %r" % (name, fin))
        # at any layer: the work behind a flat-mapped inner future must not start afterwards either
        late_inner = [x for x in items if x["k"] == "inner_work_ran" and x["seq"] > s0]
        ctx.check("no-inner-work-after-successful-cancel", not late_inner, "%s: the inner future returned by the flat_map function was left to run after cancel() returned True" % name)
    elif any_rets:
        ctx.reach("cancel-false")
        # every cancel was refused: the future completes with the callable's own outcome
        if not is_fn and e.name != "f_nocancel":
            ok = ctx.check("completes-after-refused-cancel", fin[0] in ("value", "error"), "%s: all cancels refused, outcome %r" % (name, fin))
    # retry: no delegate submission after any cancel() returned
    # the recorded delegate must BE the retry executor's delegate, and the cancel() must be sure to
    # reach the RetryFuture: a throttle layer above it may refuse a cancel in its own hand-over window
    # without ever forwarding it
    _layers = name.split(":", 1)[-1].split("+")
    direct = name == "retry" or (_layers[0] == "retry" and not any(l in ("throttle", "throttle_block") for l in _layers[1:]))
    if "retry" in name and any_rets and direct:
        # (only where the recorded delegate IS the retry executor's delegate)
        s0 = any_rets[0]["seq"]
        late_submit = [x for x in items if x["k"] == "delegate_submit" and x["seq"] > s0]
        ctx.check("cancel-ends-retrying", not late_submit, "%s: delegate.submit after a cancel() call had returned (%s)" % (
            name, any_rets[0]["result"]))
        ctx.reach("retry-cancel-checked")
    # a cancel on a running callable is refused
    for x in any_rets:
        running = [y for y in items if y["k"] == "callable_start" and y["seq"] < x["seq"]]
        ended = [y for y in items if y["k"] == "callable_end" and y["seq"] < x["seq"]]
        call = [y for y in items if y["k"] == "cancel_call_derived" and y["seq"] < x["seq"] and y["i"] == x["i"]][-1]
        started_before_call = [y for y in items if y["k"] == "callable_start" and y["seq"] < call["seq"]]
        ended_before_ret = ended
        if len(started_before_call) > len(ended_before_ret) and not is_fn and "poll" not in name:
            # the callable was running during the whole cancel() call
            ctx.check("cancel-refused-while-running", x["result"] is False, "%s: cancel() returned %r while the callable was running" % (name, x["result"]))
            ctx.reach("cancel-while-running")
    # propagation to the innermost pending work
    if is_fn:
        if name == "f_nocancel":
            ctx.check("nocancel-returns-false", all(v is False for k, v in rets if k == "ret"), rets)
            ctx.check("nocancel-shields", not ev.of("cancel_call"), "input of f_nocancel received cancel()")
        else:
            for x in any_rets:
                pending_then = [tag for (tag, st) in x["state"]]
            first = any_rets[0] if any_rets else None
            if first is not None and first["result"] is True:
                # every input that was still pending when cancel() returned has received a cancel() by then
                st_then = dict(first["state"])
                for d in e.inputs + ([e.inner] if e.inner is not None else []):
                    got = ev.of("cancel_call", tag=d.tag)  # (another thread's concurrent cancel() may still be forwarding)
                    if st_then.get(d.tag) in ("PENDING", "RUNNING"):
                        ctx.check("cancel-propagates-to-inputs", len(got) >= 1, "%s: input %s was %s when cancel() returned True and never received a cancel()" % (name, d.tag, st_then.get(d.tag)))
                        ctx.reach("propagation-checked")
                    elif st_then.get(d.tag) in ("CANCELLED", "CANCELLED_AND_NOTIFIED"):
                        ctx.reach("propagation-checked")
    else:
        for x in true_rets[:1]:
            # the innermost delegate future that was pending at that time must have been cancelled
            for d in list(e.inputs) + ([e.inner] if e.inner is not None else []):
                if isinstance(d, RecFuture) and d.cancelled():
                    ctx.reach("delegate-cancelled")
    e.close()
    return True


def scn_quiescent(ctx):
    """No race at all: submit, let the library's threads settle (the callable is handed to the
    delegate and still pending there), then cancel().  The request reaches the delegate's future,
    cancel() returns True, the callable never starts."""
    p = ctx.params
    name = p["entry"]
    ev = ctx.ev
    started = []

    def fn():
        started.append(1)
        return 1

    e = entries.build(ctx, name, fn=fn)
    f = e.fut
    sched.vsleep_until(sched.now() + 1)
    dels = list(e.me.submitted)
    if not ctx.check("handed-to-delegate", len(dels) == 1 and not dels[0].done(), "%s: delegate futures %r" % (name, dels)):
        return
    r = f.cancel()
    ctx.check("cancel-of-pending-work-succeeds", r is True, "%s: cancel() returned %r although the delegate's future was pending and cancellable" % (name, r))
    ctx.check("cancel-reaches-delegate", len(ev.of("cancel_call", tag=dels[0].tag)) >= 1 and dels[0].cancelled(),
              "%s: the delegate's future got %d cancel() calls, state %s" % (name, len(ev.of("cancel_call", tag=dels[0].tag)), dels[0]._state))
    e.me.run(dels[0])  # the delegate's worker dequeues it
    sched.vsleep_until(sched.now() + 5)
    ctx.check("no-start-after-successful-cancel", not started, "%s: callable ran after the cancel" % name)
    ctx.check("stays-cancelled", outcome(f) == ("cancelled",), "%s: outcome %r" % (name, outcome(f)))
    ctx.reach("quiescent-cancel")
    e.close()
    return True


def scn_selfcancel(ctx):
    """The callable, running inline on a synchronous base, calls cancel() on its own future (and a
    second time after a first failed attempt, for retry layers).  It is running: cancel() returns
    False, raises nothing, and the future completes with the callable's own outcome."""
    from more_executors import Executors
    p = ctx.params
    layer = p["layer"]
    ev = ctx.ev
    holder = {}
    seen = []
    import threading
    have = threading.Event()

    def fn():
        have.wait(50)
        f_ = holder.get("f")
        if f_ is not None:
            try:
                seen.append(("returned", f_.cancel()))
            except Exception as x:  # noqa
                seen.append(("raised", x))
        return "value"

    base = Executors.sync()
    if layer == "retry":
        ex = base.with_retry(max_attempts=2, sleep=0.5)
    elif layer == "map":
        ex = base.with_map(lambda x: x)
    elif layer == "flat_map":
        from more_executors.futures import f_return
        ex = base.with_flat_map(lambda x: f_return(x))
    elif layer == "throttle":
        ex = base.with_throttle(2)
    elif layer == "timeout":
        ex = base.with_timeout(1000)
    elif layer == "poll":
        ex = base.with_poll(lambda ds: [d.yield_result(d.result) for d in ds], default_interval=1.0)
    else:
        ex = base.with_cancel_on_shutdown()

    def client():
        # (layers with a worker thread run the callable there, after submit() returned)
        holder["f"] = ex.submit(fn)
        have.set()

    c = spawn("client", client)
    c.join(BIG)
    f = holder.get("f")
    if not ctx.check("submit-returns", f is not None, "submit() did not return a future"):
        return
    wait_done(f, sched.now() + 50)
    for kind, v in seen:
        ctx.check("cancel-raises-nothing", kind == "returned", "%s: cancel() from inside the running callable raised %r" % (layer, v))
        if kind == "returned":
            ctx.check("cancel-refused-while-running", v is False, "%s: cancel() from inside the running callable returned %r" % (layer, v))
    if seen and all(k == "returned" and v is False for k, v in seen):
        ctx.check("completes-after-refused-cancel", outcome(f) == ("value", "value"), "%s: outcome %r" % (layer, outcome(f)))
    if seen:
        ctx.reach("self-cancel")
    ex.shutdown(wait=True)
    return True


ENT = ["map", "flat_map", "timeout", "retry", "poll", "throttle", "cancel_on_shutdown"]
STK = ["stack:retry+map", "stack:map+retry", "stack:throttle+retry", "stack:retry+throttle", "stack:timeout+retry",
       "stack:retry+poll", "stack:poll+retry", "stack:retry+retry", "stack:throttle+map", "stack:flat_map+retry"]
POOL = ["pool:retry", "pool:retry+map"]

ASSUMPTIONS = ["the callable fails on its first `fails` invocations (Boom) so that retry layers have something to retry; retry layers: max_attempts=2, sleep=1",
               "falsy_futures: the delegate executor hands out future objects whose class makes them falsy (len() == 0)",
               "'running' = the callable has started and not ended for the whole duration of the cancel() call"]
BOUNDS_TEXT = {"quick": "map/flat_map entries also with a scheduling point inside the user function; 7 executor entries + 11 f_* + 10 two-layer stacks over a manual delegate + 4 stacks over thread_pool(1); 1-2 cancellers x 1-2 calls; P<=1",
               "thorough": "2 cancellers x 2 calls; P<=2"}
MUST_REACH = {"*": ["cancel-true", "cancel-false", "retry-cancel-checked", "cancel-while-running", "propagation-checked", "quiescent-cancel", "self-cancel"]}
BUDGET = {"quick": 120.0, "thorough": 600.0}


def plan(tier, seed):
    items = []
    q = tier == "quick"
    for n in ENT + entries.F1_ENTRIES + entries.FN_ENTRIES:
        heavy = n in ("retry", "poll", "throttle", "timeout", "f_timeout")
        items.append(dict(scenario="cancel", params=dict(entry=n, cancellers=2 if not heavy else 1, calls=1),
                          bounds=dict(P=(1 if q else 2))))
    for n in ("map", "flat_map", "f_map", "f_flat_map"):
        # cancel() issued while the user's map / flat_map function is running on the worker
        items.append(dict(scenario="cancel", params=dict(entry=n, cancellers=1, calls=1, fn_points=True), bounds=dict(P=(1 if q else 2))))
    for n in ENT:
        # the delegate's futures are falsy objects (container-like futures with len() == 0)
        items.append(dict(scenario="cancel", params=dict(entry=n, cancellers=1, calls=1, falsy_futures=True), bounds=dict(P=1)))
        items.append(dict(scenario="quiescent", params=dict(entry=n), bounds=dict(P=0)))
        items.append(dict(scenario="quiescent", params=dict(entry=n, falsy_futures=True), bounds=dict(P=0)))
    for ly in ("retry", "map", "flat_map", "throttle", "timeout", "poll", "cancel_on_shutdown"):
        items.append(dict(scenario="selfcancel", params=dict(layer=ly), bounds=dict(P=0 if q else 1)))
    for n in STK:
        items.append(dict(scenario="cancel", params=dict(entry=n, cancellers=1, calls=2 if not q else 1), bounds=dict(P=0 if q else 1)))
    for n in POOL:
        items.append(dict(scenario="cancel", params=dict(entry=n, cancellers=1, calls=1), bounds=dict(P=1 if q else 2)))
    for n in ["pool:throttle+retry", "pool:retry+timeout"]:
        items.append(dict(scenario="cancel", params=dict(entry=n, cancellers=1, calls=1), bounds=dict(P=0 if q else 1)))
    if not q:
        items.append(dict(scenario="cancel", params=dict(entry="retry", cancellers=2, calls=2, fails=1), bounds=dict(P=2)))
    return items
