"""Future-producing entry points of the library, wrapped uniformly for C02/C03/C06/C18/C20.

build(ctx, name) -> Entry with
  .fut        the future handed out by the library
  .inputs     the innermost pending RecFutures the scenario controls (delegate / inputs)
  .complete(kind)   (run it in a 'completer' thread) finish the underlying work:
                    'value' | 'error' | 'cancel' (someone else cancels the underlying future)
  .expect(kind)     expected outcome of .fut for that kind, as ('value', v) | ('error', cls) | ('cancelled',) | ('cancelled-or-error',)
  .close()    shut the executors down
"""
from __future__ import annotations

import threading
from concurrent.futures import Future, InvalidStateError

from vf.harness.common import *  # noqa
from vf.engine import sched

EXECUTOR_ENTRIES = ["map", "flat_map", "timeout", "retry", "poll", "throttle", "cancel_on_shutdown"]
F1_ENTRIES = ["f_map", "f_flat_map", "f_nocancel", "f_proxy", "f_timeout"]
FN_ENTRIES = ["f_zip", "f_or", "f_and", "f_sequence", "f_traverse", "f_apply"]
ALL_ENTRIES = EXECUTOR_ENTRIES + F1_ENTRIES + FN_ENTRIES


class Boom(Exception):
    pass


def finish(d, kind, value=None, exc=None):
    """Finish a RecFuture the way a well-behaved executor would (including the
    set_running_or_notify_cancel() an executor performs when it dequeues a work item that
    was cancelled meanwhile).  Returns True if we set the outcome."""
    try:
        if kind == "cancel":
            if Future.cancel(d):
                try:
                    d.set_running_or_notify_cancel()
                except RuntimeError:
                    pass
                return True
            return False
        if not d.running():
            try:
                if not d.set_running_or_notify_cancel():
                    return False  # was cancelled: waiters are notified now
            except RuntimeError:
                return False  # already finished / notified
        if kind == "value":
            d.set_result(value)
        else:
            d.set_exception(exc if exc is not None else Boom("underlying work failed"))
        return True
    except InvalidStateError:
        return False


class Entry(object):
    def __init__(self, ctx, name):
        self.ctx = ctx
        self.name = name
        self.me = None
        self.executors = []
        self.inputs = []
        self.fut = None
        self.exc = Boom("underlying work failed")
        self.value = 7
        self._stop = False
        self.inner = None
        self.fn_ran = False

    # -- underlying completion ------------------------------------------------
    def complete(self, kind):
        """Finish the underlying work (blocks until the delegate future exists)."""
        n = self.name
        me = self.me
        if n == "pool":
            return  # the thread pool runs the callable by itself
        if n in EXECUTOR_ENTRIES or n == "stack":
            # complete every delegate submission as it appears, until the future is done
            done_ev = threading.Event()
            self.fut.add_done_callback(lambda _f: (done_ev.set(), me.wake.set()))
            idx = 0
            while not self.fut.done() and not self._stop:
                if idx >= len(me.submitted):
                    me.wake.wait()
                    me.wake.clear()
                    continue
                d = me.submitted[idx]
                idx += 1
                sched.point()
                if kind == "run":
                    me.run(d)  # play the worker: really run the submitted callable
                    if d.done() and not d.cancelled() and d.exception() is None:
                        if not (n == "flat_map"):
                            break
                    continue
                if n == "flat_map":
                    finish(d, "value", self.value)  # then the inner future decides
                else:
                    finish(d, kind, self.value, self.exc)
                if kind != "error" or not (n == "retry" or (n == "stack" and "retry" in self.layers)):
                    break
            if n == "flat_map" and self.inner is not None:
                sched.point()
                if finish(self.inner, "value" if kind == "run" else kind, self.value, self.exc):
                    if self.fn_ran:  # (only if the flat_map function really handed the inner future out)
                        self.ctx.ev.add("inner_work_ran")  # the inner future's work started and ended
            # a real executor dequeues every work item eventually, which is when waiters of
            # a future cancelled meanwhile get notified
            for d in list(me.submitted):
                if d.cancelled():
                    try:
                        d.set_running_or_notify_cancel()
                    except RuntimeError:
                        pass
            return
        if n == "f_flat_map":
            finish(self.inputs[0], "value", self.value)
            sched.point()
            if self.inner is not None:
                if finish(self.inner, kind, self.value, self.exc) and self.fn_ran:
                    self.ctx.ev.add("inner_work_ran")
            return
        # f_* over inputs: the first input carries `kind`, the others succeed
        first = True
        for d in self.inputs:
            sched.point()
            if first:
                finish(d, kind, self.value, self.exc)
                first = False
            else:
                finish(d, "value", self.value)

    def expect(self, kind):
        n = self.name
        v = self.value
        if n == "f_or" and kind in ("error", "cancel"):
            return ("value", v)  # OR: a failed / cancelled input is falsy, the other input decides
        if kind == "error":
            return ("error", self.exc)
        if kind == "cancel":
            return ("cancelled-or-error",)
        if n in ("f_zip",):
            return ("value", tuple([v] * len(self.inputs)))
        if n in ("f_sequence", "f_traverse"):
            return ("value", [v] * len(self.inputs))
        if n == "f_apply":
            return ("value", ("applied", v))
        if n == "f_or" or n == "f_and":
            return ("value", v)
        return ("value", v)

    def stop(self):
        self._stop = True
        if self.me is not None:
            self.me.wake.set()

    is_pool = False

    def close(self):
        self.stop()
        for ex in self.executors:
            try:
                ex.shutdown(wait=True)
            except Exception:  # noqa
                pass


def build(ctx, name, fn=None):
    from more_executors import Executors
    from more_executors import futures as F
    from more_executors.map import MapExecutor
    from more_executors.flat_map import FlatMapExecutor
    from more_executors.timeout import TimeoutExecutor
    from more_executors.retry import RetryExecutor
    from more_executors.poll import PollExecutor
    from more_executors.throttle import ThrottleExecutor
    from more_executors.cancel_on_shutdown import CancelOnShutdownExecutor

    e = Entry(ctx, name)
    ev = ctx.ev

    def userfn(ret):
        """map / flat_map function; with params fn_points it logs its start/end and contains a
        scheduling point, so that other threads can act while user code runs on the worker"""
        if not ctx.params.get("fn_points"):
            def fn0(x):
                e.fn_ran = True
                return ret(x)
            return fn0

        def fn_(x):
            ev.add("mapfn_start")
            sched.point()
            ev.add("mapfn_end")
            e.fn_ran = True
            return ret(x)
        return fn_
    if name.startswith("stack:") or name.startswith("pool:"):
        # "stack:a+b" = layer a applied first (innermost, directly over the manual delegate), then b
        # "pool:a+b"  = the same over a real thread pool (1 worker) behind a recording wrapper
        if name.startswith("pool:"):
            e.pool = Executors.thread_pool(max_workers=1)
            me = e.me = RecordingExecutor(e.pool, ev, name="pool")
            me.wake = threading.Event()
            me.submitted = []
            e.is_pool = True
        else:
            me = e.me = ManualExecutor(ev)
        ex = me
        e.layers = name.split(":", 1)[1].split("+")
        for ln in e.layers:
            if ln == "map":
                ex = Executors.with_map(ex, lambda x: x)
            elif ln == "flat_map":
                ex = Executors.with_flat_map(ex, lambda x: F.f_return(x))
            elif ln == "timeout":
                ex = Executors.with_timeout(ex, 5000)
            elif ln == "timeout_short":
                ex = Executors.with_timeout(ex, 2)
            elif ln == "retry":
                ex = Executors.with_retry(ex, max_attempts=2, sleep=1.0)
            elif ln == "poll":
                def poll_fn(ds):
                    for d in ds:
                        d.yield_result(d.result)
                ex = Executors.with_poll(ex, poll_fn, default_interval=3.0)
            elif ln == "throttle":
                ex = Executors.with_throttle(ex, 1)
            elif ln == "cancel_on_shutdown":
                ex = Executors.with_cancel_on_shutdown(ex)
            else:
                raise ValueError(ln)
            e.executors.append(ex)
        e.executors.reverse()
        e.ex = ex
        e.fut = ex.submit(fn or (lambda: e.value))
        e.inputs = me.submitted
        e.name = "pool" if name.startswith("pool:") else "stack"
        e.full_name = name
        return e
    if name in EXECUTOR_ENTRIES:
        me = e.me = ManualExecutor(ev)
        if ctx.params.get("falsy_futures"):
            me.future_class = FalsyRecFuture  # the delegate hands out future objects that are falsy
        call = fn or (lambda: e.value)
        if name == "map":
            ex = MapExecutor(me, userfn(lambda x: x))
        elif name == "flat_map":
            e.inner = RecFuture(ev, "inner")
            ex = FlatMapExecutor(me, userfn(lambda x: e.inner))
        elif name == "timeout":
            ex = TimeoutExecutor(me, 5000)
        elif name == "retry":
            ex = RetryExecutor(me, max_attempts=2, sleep=1.0)
        elif name == "poll":
            def poll_fn(ds):
                for d in ds:
                    d.yield_result(d.result)
            ex = PollExecutor(me, poll_fn, default_interval=3.0)
        elif name == "throttle":
            ex = ThrottleExecutor(me, 1)
        else:
            ex = CancelOnShutdownExecutor(me)
        e.executors.append(ex)
        e.ex = ex
        e.fut = ex.submit(call)
        e.inputs = me.submitted  # live list
        if name == "flat_map":
            e.inputs_extra = [e.inner]
        return e
    nin = 1 if name in F1_ENTRIES else ctx.params.get("nin", 2)
    ins = [RecFuture(ev, "in%d" % i) for i in range(nin)]
    e.inputs = ins
    if ctx.params.get("predone") and nin > 1:
        finish(ins[-1], "value", e.value)  # an input that is already finished when the combinator is created
    if name == "f_map":
        e.fut = F.f_map(ins[0], userfn(lambda x: x))
    elif name == "f_flat_map":
        e.inner = RecFuture(ev, "inner")
        e.fut = F.f_flat_map(ins[0], userfn(lambda x: e.inner))
    elif name == "f_nocancel":
        e.fut = F.f_nocancel(ins[0])
    elif name == "f_proxy":
        e.fut = F.f_proxy(ins[0])
    elif name == "f_timeout":
        e.fut = F.f_timeout(ins[0], 5000)
    elif name == "f_zip":
        e.fut = F.f_zip(*ins)
    elif name == "f_or":
        e.fut = F.f_or(*ins)
    elif name == "f_and":
        e.fut = F.f_and(*ins)
    elif name == "f_sequence":
        e.fut = F.f_sequence(ins)
    elif name == "f_traverse":
        e.fut = F.f_traverse(lambda f: f, ins)
    elif name == "f_apply":
        fnf = RecFuture(ev, "fn")
        fnf.set_result(lambda *a, **k: ("applied", a[0] if a else None))
        e.fut = F.f_apply(fnf, ins[0])
        e.inputs = [ins[0]]
    else:
        raise ValueError(name)
    return e
