"""C17 — f_proxy is transparent for forwarded operations; f_nocancel shields cancel."""
from __future__ import annotations

import concurrent.futures as cf

from vf.harness.common import *  # noqa
from vf.harness.entries import finish, Boom
from vf.engine import sched

PROPERTY = "C17"
K = 32


def contracts(tier):
    return [dict(file="c17_proxy.py", timeout=40 if tier == "quick" else 200),
            dict(file="c17_attrs.py", timeout=60 if tier == "quick" else 200)]


def enumerations(tier):
    return [dict(module="vf.contracts.c17_table",
                 note="boundary-witness table in plain CPython for every forwarded operation x operand types, including the 45 "
                      "combinations CrossHair cannot decide (C-level numeric conversions, float arithmetic); an enumeration, not a solver verdict")]


def scn_pending(ctx):
    """Pending input: non-forwarded operations do not block; a forwarded operation raises
    TimeoutError exactly at t0 + timeout, or returns once another thread resolves the input."""
    from more_executors.futures import f_proxy

    p = ctx.params
    ev = ctx.ev
    eps = ctx.eps
    inp = RecFuture(ev, "in")
    T = ctx.real("timeout", lo=0, hi=100)
    ctx.assume(s_or(T == 0, T >= 64 * eps))
    px = f_proxy(inp, timeout=T)
    t0 = sched.now()
    obs = [bool(px), repr(px), str(px), px == px, px != 3, hash(px)]
    try:
        px.__wrapped__
        ctx.check("dunder-lookup-raises-attributeerror", False, "no AttributeError")
    except AttributeError:
        pass
    ctx.check("non-forwarded-ops-do-not-block", bool(sched.now() <= t0 + K * eps) and not inp.done(), "took until %r" % (sched.now(),))
    ctx.check("non-forwarded-values", obs[0] is True and obs[3] is True and obs[4] is True and isinstance(obs[5], int), obs)
    resolve = ctx.choice(3, "resolve")  # 0 never, 1 before the timeout, 2 fails before the timeout
    x = ctx.int("x", -5, 5)
    tr = ctx.real("t_resolve", lo=0, hi=100)
    if resolve:
        ctx.assume(tr + 64 * eps <= T)

        def resolver():
            sched.vsleep_until(t0 + tr)
            if resolve == 1:
                finish(inp, "value", x)
            else:
                finish(inp, "error", exc=Boom("in"))
        th = spawn("resolver", resolver)
    op = ctx.choice(3, "op")
    t1 = sched.now()
    try:
        if op == 0:
            r = px + 1
        elif op == 1:
            r = abs(px)
        else:
            r = px * 2
        res = ("value", r)
    except cf.TimeoutError:
        res = ("timeout",)
    except Boom as e:
        res = ("error", e)
    t2 = sched.now()
    if resolve == 0:
        ctx.check("forwarded-op-times-out", res == ("timeout",), res)
        ctx.check("timeout-not-early", t2 >= t1 + T, "returned at %r, called at %r" % (t2, t1))
        ctx.check("timeout-at-deadline", t2 <= t1 + T + K * eps, "returned at %r, deadline %r" % (t2, t1 + T))
        ctx.reach("timeout-checked")
    elif resolve == 1:
        exp = (x + 1, abs(x), x * 2)[op]
        ctx.check("forwarded-op-after-resolution", res[0] == "value" and eq_term(res[1], exp), "%r expected %r" % (res, exp))
        ctx.check("returns-when-resolved", t2 <= t0 + tr + K * eps if bool(t0 + tr >= t1) else t2 <= t1 + K * eps, "returned at %r" % (t2,))
        ctx.reach("resolved-checked")
        th.join(BIG)
    else:
        ctx.check("forwarded-op-raises-input-exception", res[0] == "error", res)
        th.join(BIG)
    return True


def scn_nocancel(ctx):
    from more_executors.futures import f_nocancel

    ev = ctx.ev
    inp = RecFuture(ev, "in")
    w = f_nocancel(inp)
    kind = ctx.choice(3, "kind")
    x = ctx.int("x")
    rets = []

    def canceller():
        for _ in range(2):
            sched.point()
            rets.append(w.cancel())

    def completer():
        sched.point()
        finish(inp, ("value", "error", "cancel")[kind], x, Boom("in"))

    ths = [spawn("canceller", canceller), spawn("completer", completer)]
    for t in ths:
        t.join(BIG)
    wait_done(w, sched.now() + 5)
    ctx.check("cancel-always-false", rets == [False, False], rets)
    ctx.check("input-never-cancelled-through-wrapper", len(inp.cancel_calls) == 0, inp.cancel_calls)
    o = outcome(w)
    if kind == 0:
        ctx.check("mirrors-value", o[0] == "value" and eq_term(o[1], x), o)
    elif kind == 1:
        ctx.check("mirrors-error", o[0] == "error" and o[1] is inp.exception(), o)
    else:
        ctx.check("mirrors-cancellation", o[0] in ("cancelled",), o)
    ctx.reach("nocancel-checked")
    return True


ASSUMPTIONS = ["X: one contract per (operation, operand types) over int/bool/float/str/List[int]/Tuple[int,...]/Dict[int,int], sizes <= 3, shifts/exponents in small stated ranges; floats are CrossHair's real-backed floats",
               "S: pending input with symbolic timeout in {0} u [64 eps, 100]"]
BOUNDS_TEXT = {"quick": "X: ~140 contracts, 40 s each; S: P<=1", "thorough": "X: 200 s; S: P<=2"}
MUST_REACH = {"*": ["timeout-checked", "resolved-checked", "nocancel-checked"]}
BUDGET = {"quick": 120.0, "thorough": 600.0}


def plan(tier, seed):
    P = 1 if tier == "quick" else 4
    return [dict(scenario="pending", params={}, bounds=dict(P=P)), dict(scenario="nocancel", params={}, bounds=dict(P=P + 1))]
