"""C11 — shutdown: submit refuses afterwards, idempotent, propagates, joins, returns."""
from __future__ import annotations

from vf.harness.common import *  # noqa
from vf.harness.entries import finish, Boom
from vf.engine import sched

PROPERTY = "C11"
K = 64
MSG = "cannot schedule new futures after shutdown"
THREAD_PREFIX = {"retry": "RetryExecutor-", "poll": "PollExecutor-", "throttle": "ThrottleExecutor-",
                 "throttle_block": "ThrottleExecutor-", "timeout": "TimeoutExecutor-"}


def build_stack(layers, me):
    from more_executors import Executors
    from more_executors.asyncio import AsyncioExecutor

    ex = me
    out = []
    for ln in layers:
        if ln == "map":
            ex = Executors.with_map(ex, lambda x: x)
        elif ln == "flat_map":
            from more_executors.futures import f_return
            ex = Executors.with_flat_map(ex, lambda x: f_return(x))
        elif ln == "timeout":
            ex = Executors.with_timeout(ex, 1000)
        elif ln == "retry":
            ex = Executors.with_retry(ex, max_attempts=3, sleep=1000.0, max_sleep=5000)
        elif ln == "poll":
            ex = Executors.with_poll(ex, lambda ds: None, default_interval=1000.0)
        elif ln == "throttle":
            ex = Executors.with_throttle(ex, 1)
        elif ln == "throttle_block":
            ex = Executors.with_throttle(ex, 1, block=True)
        elif ln == "cancel_on_shutdown":
            ex = Executors.with_cancel_on_shutdown(ex)
        elif ln == "asyncio":
            ex = AsyncioExecutor(ex, loop=object())
        else:
            raise ValueError(ln)
        out.append(ex)
    return ex, out


def scn_shutdown(ctx):
    p = ctx.params
    layers = p["layers"]
    busy = p.get("busy", True)
    racing = p.get("racing", True)
    eps = ctx.eps
    ev = ctx.ev
    me = ManualExecutor(ev)
    ex, chain = build_stack(layers, me)
    wait = bool(ctx.choice(2, "wait"))
    cf = bool(ctx.choice(2, "cancel_futures"))
    futs = []
    if busy and "asyncio" not in layers:
        # put the stack into its characteristic busy state
        futs.append(ex.submit(lambda: 1))
        if "throttle" in layers or "throttle_block" in layers:
            # let the first one be handed over, then queue a second one behind it; with
            # block=True the racing submit() then finds the queue full and blocks
            sched.vsleep_until(sched.now() + 1)
            futs.append(ex.submit(lambda: 2))
        # let the library threads hand the work to the delegate
        sched.vsleep_until(sched.now() + 1)
        if me.submitted:
            d = me.submitted[0]
            if "retry" in layers:
                finish(d, "error", exc=Boom("first attempt fails"))  # now sleeping between retries
            elif "poll" in layers:
                finish(d, "value", 5)  # now being polled (the poll function never yields)
            else:
                d.set_running_or_notify_cancel()  # callable running
        sched.vsleep_until(sched.now() + 1)
    racer_out = []

    def racer():
        sched.point()
        try:
            f = ex.submit(lambda: 3)
            racer_out.append(("future", f))
        except RuntimeError as e:
            racer_out.append(("refused", e))
        except Exception as e:  # noqa
            racer_out.append(("other", e))

    t_sd = {}

    def shutter():
        sched.point()
        t_sd["call"] = sched.now()
        ev.add("shutdown_call")
        if cf:
            ex.shutdown(wait, cancel_futures=True)
        else:
            ex.shutdown(wait)
        t_sd["ret"] = sched.now()
        ev.add("shutdown_ret")

    ths = []
    if racing and "asyncio" not in layers:
        ths.append(spawn("racer", racer))
    sh = spawn("shutter", shutter)
    sh2 = None
    if p.get("second_shutter"):
        # another thread calls shutdown() with the same arguments at the same time: still exactly
        # one shutdown of the wrapped executor
        def shutter2():
            sched.point()
            if cf:
                ex.shutdown(wait, cancel_futures=True)
            else:
                ex.shutdown(wait)
            ev.add("shutdown2_ret")
        sh2 = spawn("shutter2", shutter2)
    sh.join(300)
    if sh2 is not None:
        sh2.join(300)
        ctx.check("concurrent-shutdown-returns", bool(ev.of("shutdown2_ret")), "a second, concurrent shutdown() did not return")
        ctx.reach("two-shutters")
    if not ctx.check("shutdown-returns", "ret" in t_sd, "shutdown(wait=%s) of %s did not return (busy=%s)" % (wait, "+".join(layers), busy)):
        return
    ctx.check("shutdown-returns-promptly", t_sd["ret"] <= t_sd["call"] + K * eps,
              "shutdown(wait=%s) took from %r to %r" % (wait, t_sd["call"], t_sd["ret"]))
    for t in ths:
        t.join(300)
        ctx.check("racing-submit-returns", not t.is_alive(), "racing submit() still blocked")
    # delegate saw exactly one shutdown with the same arguments
    exp_kw = {"cancel_futures": True} if cf else {}
    ctx.check("delegate-shutdown-once", len(me.shutdowns) == 1, "innermost executor saw %d shutdown calls" % len(me.shutdowns))
    if me.shutdowns:
        ctx.check("delegate-shutdown-args", me.shutdowns[0] == (wait, exp_kw), "got %r expected %r" % (me.shutdowns[0], (wait, exp_kw)))
    # every layer refuses submit now
    for layer_ex, ln in zip(chain, layers):
        try:
            layer_ex.submit(lambda: 0)
            ctx.check("submit-after-shutdown-refused", False, "%s.submit succeeded after shutdown" % ln)
        except RuntimeError as e:
            ctx.check("submit-after-shutdown-refused", MSG in str(e), "%s: %r" % (ln, e))
        except Exception as e:  # noqa
            ctx.check("submit-after-shutdown-refused", False, "%s: %r" % (ln, e))
    for kind, val in racer_out:
        if kind == "refused":
            ctx.check("racing-submit-error", MSG in str(val), repr(val))
            ctx.reach("racer-refused")
        elif kind == "future":
            ctx.reach("racer-accepted")
        else:
            ctx.check("racing-submit-error", False, "racing submit raised %r" % (val,))
    # worker threads joined with wait=True
    if wait:
        for ln in layers:
            pre = THREAD_PREFIX.get(ln)
            if pre:
                alive = [t.name for t in ctx.sched.threads if t.name.startswith(pre) and not t.finished]
                ctx.check("worker-thread-exited", not alive, "after shutdown(wait=True): %s still alive" % alive)
                ctx.reach("join-checked")
    # repeated shutdown is harmless
    try:
        ex.shutdown(wait)
        ex.shutdown(not wait)
        ctx.check("shutdown-idempotent", len(me.shutdowns) == 1, "innermost executor saw %d shutdown calls after repeats" % len(me.shutdowns))
    except Exception as e:  # noqa
        ctx.check("shutdown-idempotent", False, repr(e))
    return True


SINGLES = ["map", "flat_map", "timeout", "retry", "poll", "throttle", "throttle_block", "cancel_on_shutdown", "asyncio"]
PAIRS = [["retry", "timeout"], ["timeout", "retry"], ["poll", "retry"], ["throttle", "poll"], ["map", "throttle"],
         ["retry", "cancel_on_shutdown"], ["throttle", "cancel_on_shutdown"], ["timeout", "poll"], ["poll", "map"],
         ["retry", "asyncio"], ["cancel_on_shutdown", "retry"], ["throttle_block", "retry"]]

ASSUMPTIONS = ["innermost executor is a recording delegate; busy state = queued / between retries (sleep 1000 s) / being polled (interval 1000 s) / delegate future RUNNING",
               "'returns' is asserted as: shutdown() returns within 64*eps of its call (nothing in these states legitimately delays it)"]
BOUNDS_TEXT = {"quick": "9 single layers + 12 two-layer stacks, busy and idle, racing submitter, wait x cancel_futures; two concurrent shutdown() callers on 4 layers; P<=1",
               "thorough": "P<=2"}
MUST_REACH = {"*": ["racer-refused", "racer-accepted", "join-checked", "two-shutters"]}
BUDGET = {"quick": 120.0, "thorough": 600.0}


def plan(tier, seed):
    items = []
    q = tier == "quick"
    for s in SINGLES:
        items.append(dict(scenario="shutdown", params=dict(layers=[s], busy=True), bounds=dict(lpredict=True, P=1 if q else 2, post_release=True)))
        if s in THREAD_PREFIX:
            # shutdown right after construction: races with the worker loop's first iteration
            items.append(dict(scenario="shutdown", params=dict(layers=[s], busy=False, racing=False), bounds=dict(lpredict=True, P=2 if q else 3)))
        if not q:
            items.append(dict(scenario="shutdown", params=dict(layers=[s], busy=False), bounds=dict(lpredict=True, P=2)))
    for s in (["map", "retry", "throttle", "cancel_on_shutdown"] if q else [x for x in SINGLES if x != "asyncio"]):
        items.append(dict(scenario="shutdown", params=dict(layers=[s], busy=(s != "map"), racing=False, second_shutter=True), bounds=dict(lpredict=True, P=1 if q else 2)))
    for pr in PAIRS:
        items.append(dict(scenario="shutdown", params=dict(layers=pr, busy=True), bounds=dict(lpredict=True, P=0 if q else 1)))
    return items
