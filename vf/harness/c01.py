"""C01 — composed executors deliver each callable's own outcome, exactly once."""
from __future__ import annotations

import itertools

from vf.harness.common import *  # noqa
from vf.engine import sched

PROPERTY = "C01"
LAYERS = ["map", "flat_map", "retry", "poll", "throttle", "timeout", "cancel_on_shutdown"]


class ScriptErr(Exception):
    pass


def scn_compose(ctx):
    """A stack of layers over sync / thread_pool(2); N tagged submissions with symbolic integer
    arguments from M threads; the callable and the map / flat_map functions follow
    per-invocation scripts (return | raise) chosen by the explorer.  Oracle: a sequential
    evaluator of the same stack replaying the recorded scripts."""
    from more_executors import Executors
    from more_executors.futures import f_return

    p = ctx.params
    layers = p["layers"]
    base = p.get("base", "sync")
    nsub = p.get("nsub", 2)
    nthreads = p.get("threads", 2)
    faulty_fns = p.get("faulty_fns", True)
    eps = ctx.eps
    ev = ctx.ev
    rec = {}   # (site, tag) -> list of ("value", None) | ("error", exc)
    calls = {}  # tag -> list of argument tuples of the callable

    def script(site, tag, may_fail=True):
        lst = rec.setdefault((site, tag), [])
        k = len(lst)
        fail = may_fail and k < p.get("script_len", 2) and bool(ctx.choice(2, "%s.%s.%d" % (site, tag, k)))
        if fail:
            e = ScriptErr((site, tag, k))
            lst.append(("error", e))
            raise e
        lst.append(("value", None))

    ex = Executors.sync() if base == "sync" else Executors.thread_pool(max_workers=2)
    chain = [ex]
    consts = []
    helpers = []
    for li, ln in enumerate(layers):
        k = li + 1
        if ln == "map":
            def mfn(v, k=k, li=li):
                script("map%d" % li, v[0], faulty_fns)
                return (v[0], v[1] + k)
            ex = ex.with_map(mfn)
        elif ln == "map_err":
            # outermost only: a map layer with an error function that recovers (value or None) or raises
            def mfn2(v, k=k, li=li):
                script("map%d" % li, v[0], faulty_fns)
                return (v[0], v[1] + k)

            def efn(exc, k=k, li=li):
                tag = exc.args[0][1] if isinstance(exc, ScriptErr) and exc.args and isinstance(exc.args[0], tuple) else None
                lst = rec.setdefault(("err%d" % li, tag), [])
                c = ctx.choice(3, "err%d.%s.%d" % (li, tag, len(lst)))
                if c == 2:
                    e = ScriptErr(("err%d" % li, tag, len(lst)))
                    lst.append(("error", e))
                    raise e
                val = ("recovered", tag) if c == 0 else None
                lst.append(("value", val))
                return val
            ex = ex.with_map(mfn2, error_fn=efn)
        elif ln == "flat_map":
            def ffn(v, k=k, li=li):
                script("flat%d" % li, v[0], faulty_fns)
                if p.get("flat_async"):
                    fut = Future()

                    def later():
                        sched.point()
                        fut.set_result((v[0], v[1] + k))
                    helpers.append(spawn("flat-helper", later))
                    return fut
                return f_return((v[0], v[1] + k))
            ex = ex.with_flat_map(ffn)
        elif ln == "retry":
            if p.get("symbolic_sleep"):
                s_ = ctx.real("sleep%d" % li, lo=0, hi=10)
                ctx.assume(s_or(s_ == 0, s_ >= 128 * eps))
            else:
                s_ = 0.5
            ex = ex.with_retry(max_attempts=2, sleep=s_, exception_base=ScriptErr)
        elif ln == "poll":
            def pfn(ds, k=k, li=li):
                if ds and p.get("poll_raises") and nsub == 1:
                    script("poll%d" % li, ds[0].result[0])  # may raise: every future shown fails with that very object
                for d in ds:
                    d.yield_result((d.result[0], d.result[1] + k))
            ex = ex.with_poll(pfn, default_interval=3.0)
        elif ln == "throttle":
            ex = ex.with_throttle(1 + (li % 2))
        elif ln == "timeout":
            ex = ex.with_timeout(10000)
        elif ln == "cancel_on_shutdown":
            ex = ex.with_cancel_on_shutdown()
        chain.append(ex)

    subs = [dict(i=i, x=ctx.int("x%d" % i), y=ctx.int("y%d" % i)) for i in range(nsub)]

    def mk(i):
        def fn(x, y=None, timeout=None, retry_policy=None):
            # (the keyword argument may travel under a name that a layer's own API also uses)
            y = y if y is not None else (timeout if timeout is not None else retry_policy)
            calls.setdefault(i, []).append((x, y))
            sched.point()
            script("callable", i)
            return (i, x * 2 - y)
        return fn

    def client(group):
        for sp in group:
            # how the arguments are passed: positional + keyword, keywords only, positional only
            style = ctx.choice(3, "argstyle%d" % sp["i"]) if p.get("argstyles", True) else 0
            if p.get("kwnames"):
                # the callable's own keyword argument is called like a parameter of a layer's submit_* method
                kw = p["kwnames"][ctx.choice(len(p["kwnames"]), "kwname%d" % sp["i"])]
                try:
                    sp["f"] = ex.submit(mk(sp["i"]), sp["x"], **{kw: sp["y"]})
                except TypeError as e:
                    ctx.check("submit-accepts-arguments", False, "submit(fn, x, %s=y) raised %r" % (kw, e))
                    f_ = Future()
                    f_.set_exception(e)
                    sp["f"] = f_
                    sp["refused"] = True
                ctx.reach("kwname-checked")
            elif style == 0:
                sp["f"] = ex.submit(mk(sp["i"]), sp["x"], y=sp["y"])
            elif style == 1:
                sp["f"] = ex.submit(mk(sp["i"]), x=sp["x"], y=sp["y"])
            else:
                sp["f"] = ex.submit(mk(sp["i"]), sp["x"], sp["y"])

    groups = [[] for _ in range(nthreads)]
    for sp in subs:
        groups[sp["i"] % nthreads].append(sp)
    ths = [spawn("client%d" % gi, client, g) for gi, g in enumerate(groups)]
    for t in ths:
        t.join(BIG)
    for sp in subs:
        wait_done(sp["f"], sched.now() + 200)
    for h in helpers:
        h.join(BIG)

    # ------------------------------------------------------------ sequential oracle
    class Mismatch(Exception):
        pass

    def oracle(tag, x, y):
        pos = {}

        def take(site):
            lst = rec.get((site, tag), [])
            k = pos.get(site, 0)
            pos[site] = k + 1
            if k >= len(lst):
                raise Mismatch("sequential evaluation invokes %s a %d. time for submission %s, the stack did only %d" % (site, k + 1, tag, len(lst)))
            return lst[k]

        def run(level):
            if level == 0:
                o = take("callable")
                return ("value", (tag, x * 2 - y)) if o[0] == "value" else o
            li = level - 1
            ln = layers[li]
            k = li + 1
            if ln == "retry":
                o = run(level - 1)
                if o[0] == "error" and isinstance(o[1], ScriptErr):
                    o = run(level - 1)
                return o
            o = run(level - 1)
            if ln == "map_err":
                if o[0] == "value":
                    s2 = take("map%d" % li)
                    return ("value", (o[1][0], o[1][1] + k)) if s2[0] == "value" else s2
                return take("err%d" % li)  # ("value", recovered | None) or ("error", raised object)
            if ln == "map" and o[0] == "value":
                s2 = take("map%d" % li)
                return ("value", (o[1][0], o[1][1] + k)) if s2[0] == "value" else s2
            if ln == "flat_map" and o[0] == "value":
                s2 = take("flat%d" % li)
                return ("value", (o[1][0], o[1][1] + k)) if s2[0] == "value" else s2
            if ln == "poll" and o[0] == "value":
                if p.get("poll_raises") and nsub == 1:
                    s2 = take("poll%d" % li)
                    if s2[0] == "error":
                        return s2
                return ("value", (o[1][0], o[1][1] + k))
            return o

        out = run(len(layers))
        for site, k in pos.items():
            n = len(rec.get((site, tag), []))
            if n != k:
                raise Mismatch("%s was invoked %d times for submission %s, sequential evaluation does %d" % (site, n, tag, k))
        for (site, tg), lst in rec.items():
            if tg == tag and site not in pos and lst:
                raise Mismatch("%s was invoked %d times for submission %s, sequential evaluation never does" % (site, len(lst), tag))
        return out

    for sp in subs:
        i = sp["i"]
        f = sp["f"]
        if sp.get("refused"):
            continue
        o = outcome(f)
        if not ctx.check("future-finishes", o[0] not in ("pending", "cancelled"), "submission %d: %r" % (i, o)):
            continue
        try:
            exp = oracle(i, sp["x"], sp["y"])
        except Mismatch as m:
            ctx.check("invocation-counts", False, str(m))
            continue
        ctx.check("invocation-counts", True)
        if exp[0] == "value" and (exp[1] is None or exp[1][0] == "recovered"):
            ctx.check("own-outcome-kind", o == exp, "submission %d: got %r, sequential evaluation (error function) gives %r" % (i, o, exp))
            ctx.reach("error-fn-checked")
        elif exp[0] == "value":
            ok = o[0] == "value" and isinstance(o[1], tuple) and o[1][0] == exp[1][0]
            ctx.check("own-outcome-kind", ok, "submission %d: got %r, sequential evaluation gives %r" % (i, o, exp))
            if ok:
                ctx.check("own-value", eq_term(o[1][1], exp[1][1]), "submission %d: value %r, expected %r" % (i, o[1][1], exp[1][1]))
                ctx.reach("value-checked")
        else:
            ctx.check("own-outcome-kind", o[0] == "error", "submission %d: got %r, sequential evaluation gives %r" % (i, o, exp))
            if o[0] == "error":
                ctx.check("same-exception-object", o[1] is exp[1], "submission %d: exception %r is not the raised object %r" % (i, o[1], exp[1]))
                ctx.reach("error-checked")
        for (cx, cy) in calls.get(i, []):
            ctx.check("exact-arguments", s_and(eq_term(cx, sp["x"]), eq_term(cy, sp["y"])), "submission %d called with %r, %r" % (i, cx, cy))
    chain[-1].shutdown(wait=True)
    return True


ASSUMPTIONS = ["layer configurations: map(+k), map with an error function (outermost only: recovers with a value, with None, or raises), flat_map(v -> future of v+k; already done, or completed by another thread), retry(max_attempts=2, symbolic sleep in {0} u [128 eps, 10], exception_base=ScriptErr), poll(yields result+k at first sight), throttle(1|2), timeout(10000: never fires), cancel_on_shutdown",
               "scripts: the first two invocations per (function, submission) may raise; submitted arguments are symbolic integers (x positional, y keyword); expected value x*2-y+sum(k) is proved equal by z3"]
BOUNDS_TEXT = {"quick": "all 7 stacks of depth 1 (P<=1) and all 49 of depth 2 (P=0), over sync and thread_pool(2); 2 submissions from 2 threads",
               "thorough": "depth<=2 at P<=1, depth 3 (all 343) over sync at P=0; seed-selected depth 4-6 stacks at P=0 (beyond the bound, reported separately)"}
MUST_REACH = {"*": ["value-checked", "error-checked", "error-fn-checked", "kwname-checked"]}
BUDGET = {"quick": 200.0, "thorough": 900.0}


HEAVY = ("retry", "poll", "throttle", "timeout")


def plan(tier, seed):
    import random
    q = tier == "quick"
    items = []
    C = "compose"
    for l1 in LAYERS:
        h = l1 in HEAVY
        items.append(dict(scenario=C, params=dict(layers=[l1], base="sync", script_len=1 if h else 2, argstyles=not h), bounds=dict(P=1 if q else 2)))
        if h:
            items.append(dict(scenario=C, params=dict(layers=[l1], base="sync", script_len=1, nsub=1, threads=1, poll_raises=True), bounds=dict(P=0)))
    for l2 in ("map", "retry", "timeout", "throttle"):
        items.append(dict(scenario=C, params=dict(layers=["poll", l2], base="sync", script_len=1, nsub=1, threads=1, poll_raises=True), bounds=dict(P=0)))
        items.append(dict(scenario=C, params=dict(layers=[l1], base="pool", script_len=1, nsub=1 if (q and l1 in ("retry", "timeout")) else 2, threads=1 if (q and l1 in ("retry", "timeout")) else 2, argstyles=False), bounds=dict(P=0)))
    items.append(dict(scenario=C, params=dict(layers=["retry"], base="sync", script_len=1, nsub=1, threads=1, symbolic_sleep=True), bounds=dict(P=0 if q else 1)))
    for l1, l2 in itertools.product(LAYERS, LAYERS):
        nh = (l1 in HEAVY) + (l2 in HEAVY)
        items.append(dict(scenario=C, params=dict(layers=[l1, l2], base="sync", script_len=1, nsub=1 if (nh == 2 and q) else 2, threads=1 if (nh == 2 and q) else 2, argstyles=False), bounds=dict(P=0)))
        if not q or nh <= 1:
            items.append(dict(scenario=C, params=dict(layers=[l1, l2], base="pool", script_len=1, nsub=1, threads=1), bounds=dict(P=0)))
    for ls in (["timeout"], ["retry"], ["timeout", "retry"], ["retry", "map", "timeout"]):
        # keyword arguments named like parameters of the layers' own submit_timeout / submit_retry
        items.append(dict(scenario=C, params=dict(layers=ls, base="sync", script_len=1, nsub=1, threads=1, kwnames=["y", "timeout", "retry_policy"]), bounds=dict(P=0)))
    for l1 in LAYERS:
        # a map layer with an error function (recovering with a value / with None / raising) on top
        items.append(dict(scenario=C, params=dict(layers=[l1, "map_err"], base="sync", script_len=1, nsub=1, threads=1), bounds=dict(P=0)))
    items.append(dict(scenario=C, params=dict(layers=["map_err"], base="pool", script_len=1, nsub=2, threads=2, argstyles=False), bounds=dict(P=0 if q else 1)))
    items.append(dict(scenario=C, params=dict(layers=["flat_map"], base="pool", flat_async=True, script_len=1), bounds=dict(P=0 if q else 1)))
    if not q:
        for l3 in itertools.product(LAYERS, LAYERS, LAYERS):
            items.append(dict(scenario=C, params=dict(layers=list(l3), base="sync", script_len=1, nsub=1, threads=1), bounds=dict(P=0)))
        rnd = random.Random(seed)
        for d in (4, 5, 6):
            for _ in range(4):
                items.append(dict(scenario=C, params=dict(layers=[rnd.choice(LAYERS) for _ in range(d)], base=rnd.choice(["sync", "pool"]), script_len=1, nsub=1, threads=1, beyond_bound=True), bounds=dict(P=0)))
    return items
