"""C04 — no deadlock among API calls and internal threads, including nested submission."""
from __future__ import annotations

from vf.harness.common import *  # noqa
from vf.harness.entries import Boom
from vf.engine import sched

PROPERTY = "C04"
LIMIT = 400  # virtual seconds after which a client call that has not returned is reported


def build(layers, base, hooks, workers=2):
    from more_executors import Executors
    from more_executors.futures import f_return

    if base == "sync":
        ex = Executors.sync()
    else:
        ex = Executors.thread_pool(max_workers=workers)
    chain = [ex]
    for ln in layers:
        if ln == "map":
            ex = ex.with_map(hooks.get("map_fn", lambda x: x))
        elif ln == "flat_map":
            ex = ex.with_flat_map(lambda x: f_return(x))
        elif ln == "retry":
            ex = ex.with_retry(max_attempts=2, sleep=0.5)
        elif ln == "poll":
            ex = ex.with_poll(hooks.get("poll_fn", _poll_all), default_interval=2.0)
        elif ln == "throttle":
            ex = ex.with_throttle(2)
        elif ln == "throttle_block":
            ex = ex.with_throttle(2, block=True)
        elif ln == "timeout":
            ex = ex.with_timeout(1000)
        elif ln == "timeout_short":
            ex = ex.with_timeout(0.5)
        elif ln == "cancel_on_shutdown":
            ex = ex.with_cancel_on_shutdown()
        chain.append(ex)
    return ex, chain


def _poll_all(ds):
    for d in ds:
        d.yield_result(d.result)


def scn_nested(ctx):
    """A user function running inside the executor (callable / map fn / poll fn / done-callback)
    submits again to the same, outermost executor."""
    p = ctx.params
    layers, base, site = p["layers"], p["base"], p["site"]
    ev = ctx.ev
    holder = {}
    inner = []
    did = [False]

    import threading
    nested_done = threading.Event()

    def nested_submit():
        if did[0]:
            return
        did[0] = True
        ev.add("nested_submit_call")
        f = holder["ex"].submit(lambda: "leaf")
        inner.append(f)
        ev.add("nested_submit_ret")
        nested_done.set()

    gate = threading.Event()

    def blocker():
        gate.wait(LIMIT)
        return 0

    def fn():
        if site == "callable":
            nested_submit()
        return 5

    def map_fn(x):
        if site == "map_fn":
            nested_submit()
        return x

    def poll_fn(ds):
        if site == "poll_fn" and ds:
            nested_submit()
        _poll_all(ds)

    ex, chain = build(layers, base, dict(map_fn=map_fn, poll_fn=poll_fn), workers=1 if p.get("block_callable") else 2)
    holder["ex"] = ex
    out = {}

    def client():
        if p.get("block_callable"):
            # the only worker is busy: the next submission stays queued (cancellable) until the
            # short timeout fires, and its done-callback is then run by the timeout thread
            out["blocker"] = chain[0].submit(blocker)
        f = ex.submit(fn)
        out["f"] = f
        if site == "callback":
            f.add_done_callback(lambda _f: nested_submit())
        ev.add("outer_submit_ret")

    c = spawn("client", client)
    c2 = None
    if p.get("extra_client"):
        # another thread submits to the same executor while the nested submission is going on
        def client2():
            sched.point()
            out["g"] = ex.submit(lambda: 6)
            ev.add("extra_submit_ret")
        c2 = spawn("client2", client2)
    c.join(LIMIT)
    if c2 is not None:
        c2.join(LIMIT)
        ctx.check("concurrent-submit-returns", not c2.is_alive(), "a submit() from another thread blocked while a nested submit was in progress (%s over %s, nested in %s)" % ("+".join(layers), base, site))
    ctx.check("outer-submit-returns", not c.is_alive(), "submit() blocked (%s over %s, nested in %s)" % ("+".join(layers), base, site))
    if c.is_alive():
        return
    wait_done(out["f"], sched.now() + LIMIT)
    nested_done.wait(LIMIT)
    gate.set()
    ctx.check("nested-submit-happened", did[0], "the nesting site %s was never reached" % site)
    ctx.check("nested-submit-returns", bool(ev.of("nested_submit_ret")) or not did[0], "nested submit() did not return")
    ctx.check("outer-future-completes", out["f"].done(), "outer future pending")
    if p.get("block_callable"):
        ctx.reach("timeout-fired-nested")
    if inner:
        wait_done(inner[0], sched.now() + LIMIT)
        ctx.check("inner-future-completes", inner[0].done() and outcome(inner[0]) == ("value", "leaf"), outcome(inner[0]))
        ctx.reach("nested-ok")

    def closer():
        ex.shutdown(wait=True)
        ev.add("shutdown_ret")

    s_ = spawn("closer", closer)
    s_.join(LIMIT)
    ctx.check("shutdown-returns", not s_.is_alive(), "shutdown(wait=True) blocked")
    return True


def scn_clients(ctx):
    """Up to 3 client threads issue submit / cancel / add_done_callback / result, one of them
    finally shutdown(); every call must return."""
    p = ctx.params
    layers, base = p["layers"], p["base"]
    ev = ctx.ev
    ex, chain = build(layers, base, {})
    prog = p.get("prog", "A")
    futs = []
    blocked = []

    def fn(i):
        sched.point()
        if i == 0:
            raise Boom("first fails")
        return i

    def t1():
        try:
            f = ex.submit(fn, 0)
        except RuntimeError:
            ev.add("t1_done")
            return
        futs.append(f)
        f.add_done_callback(lambda _f: ev.add("cb"))
        try:
            f.result(LIMIT)
        except Exception:  # noqa
            pass
        ev.add("t1_done")

    def t2():
        sched.point()
        try:
            f = ex.submit(fn, 1)
        except RuntimeError:
            ev.add("t2_done")
            return
        futs.append(f)
        sched.point()
        f.cancel()
        try:
            f.result(LIMIT)
        except BaseException as x:  # noqa
            if not isinstance(x, Exception):
                raise
        ev.add("t2_done")

    def t3():
        sched.point()
        ex.shutdown(wait=bool(ctx.choice(2, "wait")))
        ev.add("t3_done")

    names = {"A": [t1, t2, t3], "B": [t1, t3], "C": [t2, t3], "D": [t1, t2]}[prog]
    ths = [spawn(f_.__name__, f_) for f_ in names]
    for t in ths:
        t.join(LIMIT * 3)
    for t in ths:
        ctx.check("client-call-returns", not t.is_alive(), "%s is blocked (%s over %s)" % (t.name, "+".join(layers), base))
    ctx.reach("clients-ran")
    if prog == "D":
        ex.shutdown(wait=True)
    return True


def scn_cancelrace(ctx):
    """A client cancels a pending future of the outermost layer while another actor cancels the
    work below it: the TimeoutExecutor thread at the deadline, CancelOnShutdownExecutor.shutdown()
    from another thread, or done-callbacks that cancel a sibling future.  Every call must return."""
    import threading
    p = ctx.params
    layers, rival = p["layers"], p["rival"]
    ev = ctx.ev
    eps = ctx.eps
    ex, chain = build(layers, "pool", {}, workers=1)
    gate = threading.Event()

    def blocker():
        gate.wait(LIMIT)
        return 0

    chain[0].submit(blocker)  # the only worker is busy: everything submitted next stays pending
    t0 = sched.now()
    f = ex.submit(lambda: 1)
    g = ex.submit(lambda: 2)
    res = {}
    ths = []
    if rival == "sibling":
        f.add_done_callback(lambda _f: res.__setitem__("g-from-cb", g.cancel()))
        g.add_done_callback(lambda _f: res.__setitem__("f-from-cb", f.cancel()))

        def c1():
            sched.point()
            res["f"] = f.cancel()

        def c2():
            sched.point()
            res["g"] = g.cancel()
        ths = [spawn("cancel-f", c1), spawn("cancel-g", c2)]
    elif rival == "timeout":
        # the client's cancel lands within a few clock ticks of the 0.5 s deadline (symbolic instant)
        w = ctx.real("w", lo=0)
        ctx.assume(w >= t0 + 0.5 - 2 * eps)
        ctx.assume(w <= t0 + 0.5 + 14 * eps)

        def c1():
            sched.vsleep_until(w)
            res["f"] = f.cancel()
        ths = [spawn("cancel-f", c1)]
    elif rival == "shutdown":
        def c1():
            sched.point()
            res["f"] = f.cancel()

        def c2():
            sched.point()
            ex.shutdown(wait=False)
            res["shutdown"] = True
        ths = [spawn("cancel-f", c1), spawn("shutdown", c2)]
    for t in ths:
        t.join(LIMIT)
    for t in ths:
        ctx.check("client-call-returns", not t.is_alive(), "%s is blocked (%s, rival %s)" % (t.name, "+".join(layers), rival))
    if any(t.is_alive() for t in ths):
        return
    ctx.reach("cancelrace-" + rival)
    gate.set()
    if rival != "shutdown":
        # a refused cancel leaves the callable to run once the worker is free
        wait_done(f, sched.now() + LIMIT)
        ctx.check("future-finishes-after-cancel-race", f.done(), "f pending; cancel() returned %r" % res.get("f"))

    def closer():
        ex.shutdown(wait=True)

    s_ = spawn("closer", closer)
    s_.join(LIMIT)
    ctx.check("shutdown-returns", not s_.is_alive(), "shutdown(wait=True) blocked after the cancel race")
    return True


def scn_nested_behind_blocking_throttle(ctx):
    """thread_pool(2).with_throttle(1, block=True).with_retry(): while callable A runs, B is queued in the
    throttle and the retry layer's thread is inside the throttle's (blocking) submit() for C; then A submits
    D to the retry executor - which only has to queue a job and return."""
    import threading
    from more_executors import Executors
    ev = ctx.ev
    ex = Executors.thread_pool(max_workers=2).with_throttle(1, block=True).with_retry(max_attempts=1)
    go = threading.Event()
    inner = []

    def A():
        go.wait(LIMIT)
        ev.add("nested_submit_call")
        inner.append(ex.submit(lambda: "leaf"))
        ev.add("nested_submit_ret")
        return "a"

    fa = ex.submit(A)
    sched.vsleep_until(sched.now() + 1)
    fb = ex.submit(lambda: "b")
    sched.vsleep_until(sched.now() + 1)
    fc = ex.submit(lambda: "c")
    sched.vsleep_until(sched.now() + 1)
    go.set()
    wait_done(fa, sched.now() + LIMIT)
    ctx.check("nested-submit-returns", bool(ev.of("nested_submit_ret")), "the nested submit() from callable A never returned (retry thread inside the blocking throttle's submit, holding the retry executor's lock)")
    ctx.check("outer-future-completes", fa.done(), "A pending")
    for nm, f in (("b", fb), ("c", fc)):
        wait_done(f, sched.now() + LIMIT)
        ctx.check("queued-futures-complete", f.done(), "%s pending" % nm)
    ctx.reach("blocking-throttle-nested")
    if fa.done():
        s_ = spawn("closer", lambda: ex.shutdown(wait=True))
        s_.join(LIMIT)
    return True


def scn_callback_submit_full_throttle(ctx):
    """Executors.sync().with_throttle(1, block=True): a done-callback of F1 submits follow-up work to the
    same executor while F2 is already queued (the queue holds `count` entries).  With a synchronous
    delegate F1 resolves - and its callbacks run - on the throttle's own hand-over thread."""
    from more_executors import Executors
    ev = ctx.ev
    ex = Executors.sync().with_throttle(1, block=True)
    inner = []
    out = {}

    def cb(_f):
        ev.add("nested_submit_call")
        inner.append(ex.submit(lambda: "follow-up"))
        ev.add("nested_submit_ret")

    def client():
        out["f1"] = ex.submit(lambda: 1)
        out["f1"].add_done_callback(cb)
        out["f2"] = ex.submit(lambda: 2)
        ev.add("client_done")

    c = spawn("client", client)
    c.join(LIMIT)
    ctx.check("outer-submit-returns", not c.is_alive(), "client blocked in submit()")
    if c.is_alive():
        return
    for nm in ("f1", "f2"):
        wait_done(out[nm], sched.now() + LIMIT)
    ctx.check("nested-submit-returns", bool(ev.of("nested_submit_ret")) or not ev.of("nested_submit_call"),
              "submit() from F1's done-callback (run by the hand-over thread) never returned: the thread waits for room in a queue that only it can shorten")
    ctx.check("queued-futures-complete", out["f2"].done(), "F2 still queued with nothing in flight")
    ctx.reach("callback-submit-full-throttle")
    if out["f2"].done():
        s_ = spawn("closer", lambda: ex.shutdown(wait=True))
        s_.join(LIMIT)
    return True


SINGLE = ["map", "flat_map", "retry", "poll", "throttle", "throttle_block", "timeout", "cancel_on_shutdown"]
ASSUMPTIONS = ["a client call that has not returned after 400 virtual seconds (no timer of the library is longer than 30 s; stacks use timeouts of 1000 s only for TimeoutExecutor deadlines) is reported, as is any state in which no thread can run",
               "lock-order cycles: explored directly (preemption-bounded) and, per explored execution, predicted from its lock trace by engine L (z3 query over event orders, then a directed replay); only a deadlock reproduced on the real code is reported",
               "cancel races: the client's cancel() is issued at a symbolic instant within [-2, +14] clock ticks of the TimeoutExecutor deadline, or concurrently with shutdown() / a sibling's callback"]
BOUNDS_TEXT = {"quick": "nested submit from callable/map fn/poll fn/done-callback on every single layer over sync and thread_pool(2) (P<=1); 3-thread client programs over every single layer x 2 bases (P<=1 sync, P=0 pool)",
               "thorough": "P<=2; two-layer stacks"}
MUST_REACH = {"*": ["nested-ok", "clients-ran", "timeout-fired-nested", "cancelrace-sibling", "cancelrace-timeout", "cancelrace-shutdown"]}
BUDGET = {"quick": 150.0, "thorough": 600.0}


def plan(tier, seed):
    q = tier == "quick"
    items = []
    for base in ("sync", "pool"):
        items.append(dict(scenario="nested", params=dict(layers=[], base=base, site="callable"), bounds=dict(lpredict=True, P=1 if q else 2)))
        items.append(dict(scenario="nested", params=dict(layers=[], base=base, site="callback"), bounds=dict(lpredict=True, P=1 if q else 2)))
        for ln in SINGLE:
            sites = ["callable", "callback"] + (["map_fn"] if ln == "map" else []) + (["poll_fn"] if ln == "poll" else [])
            for site in sites:
                items.append(dict(scenario="nested", params=dict(layers=[ln], base=base, site=site), bounds=dict(lpredict=True, P=(1 if q else 2) if base == "sync" else (0 if q else 1))))
        if base == "pool":
            # the timeout really fires on a running callable; the done-callback (run by the timeout thread) submits again
            items.append(dict(scenario="nested", params=dict(layers=["timeout_short"], base=base, site="callback", block_callable=True), bounds=dict(lpredict=True, P=0 if q else 1)))
            items.append(dict(scenario="nested", params=dict(layers=["timeout_short", "map"], base=base, site="callback", block_callable=True), bounds=dict(lpredict=True, P=0)))
        if base == "sync":
            for ln in SINGLE:
                items.append(dict(scenario="nested", params=dict(layers=[ln], base=base, site="callable", extra_client=True), bounds=dict(lpredict=True, P=1 if q else 2)))
        for ln in SINGLE:
            items.append(dict(scenario="clients", params=dict(layers=[ln], base=base, prog="A"), bounds=dict(lpredict=True, P=0 if q else 1)))
    items.append(dict(scenario="callback_submit_full_throttle", params=dict(), bounds=dict(P=1 if q else 2)))
    items.append(dict(scenario="nested_behind_blocking_throttle", params=dict(), bounds=dict(P=0, max_paths=500 if q else 40000)))
    # cancel of an outer-layer future racing with a cancel of the work below it by someone else
    items.append(dict(scenario="cancelrace", params=dict(layers=["map"], rival="sibling"), bounds=dict(lpredict=True, P=1 if q else 2)))
    items.append(dict(scenario="cancelrace", params=dict(layers=["timeout_short", "map"], rival="timeout"), bounds=dict(lpredict=True, P=1 if q else 2)))
    items.append(dict(scenario="cancelrace", params=dict(layers=["map", "cancel_on_shutdown", "map"], rival="shutdown"), bounds=dict(lpredict=True, P=1 if q else 2)))
    if not q:
        items.append(dict(scenario="cancelrace", params=dict(layers=["throttle"], rival="sibling"), bounds=dict(lpredict=True, P=1)))
        items.append(dict(scenario="cancelrace", params=dict(layers=["retry", "timeout_short", "map"], rival="timeout"), bounds=dict(lpredict=True, P=1)))
        items.append(dict(scenario="cancelrace", params=dict(layers=["throttle", "cancel_on_shutdown", "flat_map"], rival="shutdown"), bounds=dict(lpredict=True, P=1)))
    if not q:
        for pr in (["retry", "map"], ["map", "retry"], ["throttle", "retry"], ["poll", "retry"], ["retry", "cancel_on_shutdown"], ["timeout", "retry"], ["throttle_block", "poll"]):
            for base in ("sync", "pool"):
                items.append(dict(scenario="nested", params=dict(layers=pr, base=base, site="callable"), bounds=dict(lpredict=True, P=1)))
                items.append(dict(scenario="clients", params=dict(layers=pr, base=base, prog="A"), bounds=dict(lpredict=True, P=1 if base == "sync" else 0)))
    return items
