"""C10 — cancel-on-shutdown covers every future the executor ever accepted."""
from __future__ import annotations

from vf.harness.common import *  # noqa
from vf.engine import sched

PROPERTY = "C10"


def scn_cos(ctx):
    """CancelOnShutdownExecutor(ManualExecutor): earlier futures pending/running/done,
    1-2 submitter threads racing with one shutdown(); optionally a done-callback that submits again."""
    from more_executors.cancel_on_shutdown import CancelOnShutdownExecutor

    p = ctx.params
    nsubmitters = p.get("submitters", 1)
    resubmit = p.get("resubmit", False)
    ev = ctx.ev
    me = ManualExecutor(ev)
    me.drain_on_wait = True  # its shutdown(wait=True) runs what is still queued, as a real executor's does
    ex = CancelOnShutdownExecutor(me)
    returned = []  # futures returned by submit()
    raised = []
    # earlier futures: one pending, one running, one done
    early = []
    for st in p.get("early", ["pending", "running", "done"]):
        f = ex.submit(lambda: None)
        returned.append(f)
        if st == "running":
            f.set_running_or_notify_cancel()
        elif st == "done":
            f.set_running_or_notify_cancel()
            f.set_result(1)
        early.append((st, f))
    if resubmit:
        def cb(_f):
            try:
                g = ex.submit(lambda: "again")
                returned.append(g)
                ev.add("resubmitted")
            except RuntimeError as e:
                raised.append(e)
        early[0][1].add_done_callback(cb)

    def submitter(k):
        for j in range(p.get("per_thread", 1)):
            sched.point()
            try:
                f = ex.submit(lambda: k)
            except RuntimeError as e:
                raised.append(e)
                ev.add("submit_refused", k=k)
            else:
                returned.append(f)
                ev.add("submit_ok", k=k, tag=f.tag)

    wait_kw = [None]
    at_call = {}  # state of every future returned so far, at the moment shutdown() is called

    def shutter():
        sched.point()
        w = bool(ctx.choice(2, "wait"))
        wait_kw[0] = w
        at_call.update((id(f_), f_._state) for f_ in returned)
        ev.add("shutdown_call")
        ex.shutdown(w)
        ev.add("shutdown_ret")

    ths = [spawn("sub%d" % k, submitter, k) for k in range(nsubmitters)]
    sh = spawn("shutdown", shutter)
    for t in ths + [sh]:
        t.join(BIG)
    ret = ev.of("shutdown_ret")
    if not ctx.check("shutdown-returns", bool(ret), "shutdown() did not return"):
        return
    ret_seq = ret[0]["seq"]
    ctx.check("delegate-shut-down-once", len(me.shutdowns) == 1 and me.shutdowns[0][0] == wait_kw[0],
              "delegate shutdown calls: %s (wait=%s)" % (me.shutdowns, wait_kw[0]))
    for e in raised:
        ctx.check("refusal-is-runtimeerror", isinstance(e, RuntimeError) and "cannot schedule new futures" in str(e), repr(e))
    for f in returned:
        # every returned future that was not done when shutdown returned got exactly one cancel()
        calls = [c for c in ev.of("cancel_call", tag=f.tag)]
        before = [c for c in calls if c["seq"] < ret_seq]
        done_at_ret = f.done() and not f.cancelled()
        was_done_early = any(st == "done" and g is f for st, g in early)
        if was_done_early:
            ctx.check("done-future-not-cancelled", len(calls) == 0, "%s got %d cancel calls" % (f.tag, len(calls)))
        elif at_call.get(id(f)) in ("PENDING", "RUNNING"):
            # not yet done when shutdown() was called (nobody but the delegate's own shutdown completes
            # futures here): the sweep reaches it, and before the delegate is left to run its queue
            ctx.check("swept-exactly-once", len(before) == 1, "%s (was %s when shutdown() was called, now %s) got %d cancel() calls before shutdown returned" % (
                f.tag, at_call.get(id(f)), f._state, len(before)))
            ctx.check("pending-work-cancelled-not-run", not ev.of("delegate_ran_on_shutdown", tag=f.tag),
                      "%s was left to run during the delegate's shutdown(wait=True) instead of being cancelled" % f.tag)
            ctx.reach("swept")
        elif f.done() and not f.cancelled() and ev.of("delegate_ran_on_shutdown", tag=f.tag):
            # a racing submission accepted after shutdown() had been called and run by the delegate's
            # shutdown(wait=True) before the sweep could see it: it escaped the sweep
            ctx.check("swept-exactly-once", len(before) == 1, "%s (submitted during shutdown) ran to completion with %d cancel() calls" % (f.tag, len(before)))
        else:
            ctx.check("swept-exactly-once", len(before) == 1, "%s (state %s) got %d cancel() calls before shutdown returned" % (
                f.tag, f._state, len(before)))
            ctx.reach("swept")
    if raised:
        ctx.reach("submit-refused")
    # after shutdown: submit refuses
    try:
        ex.submit(lambda: 0)
        ctx.check("submit-after-shutdown-refused", False, "submit succeeded after shutdown")
    except RuntimeError as e:
        ctx.check("submit-after-shutdown-refused", "cannot schedule new futures" in str(e), repr(e))
    return True


MUST_REACH = {"*": ["swept", "submit-refused"]}
ASSUMPTIONS = ["one thread calls shutdown(); delegate is a recording executor whose futures are pending/running/done as scripted"]
BOUNDS_TEXT = {
    "quick": "3 earlier futures (pending, running, done), 1-2 racing submitters x1 submit, optional re-submitting done-callback, P<=2, scheduling points also right after lock releases",
    "thorough": "2 submitters x2 submits, P<=3, gran=1 (stdlib futures preemptible)",
}


BUDGET = {"quick": 120.0, "thorough": 600.0}


def plan(tier, seed):
    if tier == "quick":
        return [
            dict(scenario="cos", params=dict(submitters=1), bounds=dict(lpredict=True, P=3, post_release=True)),
            dict(scenario="cos", params=dict(submitters=2), bounds=dict(lpredict=True, P=2, post_release=True)),
            dict(scenario="cos", params=dict(submitters=1, resubmit=True), bounds=dict(lpredict=True, P=2, post_release=True)),
        ]
    return [
        dict(scenario="cos", params=dict(submitters=2, per_thread=2), bounds=dict(lpredict=True, P=3, post_release=True)),
        dict(scenario="cos", params=dict(submitters=1, per_thread=2), bounds=dict(lpredict=True, P=4, post_release=True)),
        dict(scenario="cos", params=dict(submitters=3), bounds=dict(lpredict=True, P=2, post_release=True)),
        dict(scenario="cos", params=dict(submitters=1), bounds=dict(lpredict=True, P=3, gran=1, post_release=True)),
        dict(scenario="cos", params=dict(submitters=2, resubmit=True), bounds=dict(lpredict=True, P=2, post_release=True)),
    ]
