"""C13 — map / flat_map laws (engine X contracts + S scenarios with threads)."""
from __future__ import annotations

from vf.harness.common import *  # noqa
from vf.harness.entries import finish, Boom
from vf.engine import sched

PROPERTY = "C13"
LEVEL = "model_checking"


def contracts(tier):
    return [dict(file="c13_map.py", timeout=60 if tier == "quick" else 240)]


def scn_async(ctx):
    """Input completed later from another thread; for flat_map the inner future is completed by
    a third thread while the output may be cancelled."""
    from more_executors.futures import f_map, f_flat_map

    p = ctx.params
    form = p["form"]
    ev = ctx.ev
    x = ctx.int("x")
    k = ctx.int("k")
    inp = RecFuture(ev, "in")
    inner = RecFuture(ev, "inner")
    fcalls, ecalls = [], []
    kind = ctx.choice(2, "input-kind")  # 0 value 1 error
    exc = Boom("input")
    inner_exc = Boom("inner")
    ikind = ctx.choice(2, "inner-kind") if form == "flat_map" else 0

    def fn(v):
        fcalls.append(v)
        sched.point()
        if form == "flat_map":
            return inner
        return v + k

    def efn(e):
        ecalls.append(e)
        raise e  # re-raise the same: the outcome keeps the original exception

    out = f_flat_map(inp, fn, efn) if form == "flat_map" else f_map(inp, fn, efn)

    def t_in():
        sched.point()
        finish(inp, "value" if kind == 0 else "error", x, exc)

    def t_inner():
        sched.point()
        finish(inner, "value" if ikind == 0 else "error", x + k, inner_exc)

    cres = []

    def t_cancel():
        sched.point()
        cres.append(out.cancel())

    ths = [spawn("input", t_in)]
    if form == "flat_map":
        ths.append(spawn("inner", t_inner))
    if p.get("cancel"):
        ths.append(spawn("canceller", t_cancel))
    for t in ths:
        t.join(BIG)
    wait_done(out, sched.now() + 10)
    o = outcome(out)
    if cres and cres[0]:
        ctx.check("cancelled", o == ("cancelled",), o)
        ctx.check("fn-at-most-once", len(fcalls) <= 1 and len(ecalls) <= 1, (fcalls, ecalls))
        return True
    ctx.check("finishes", o[0] != "pending", o)
    if kind == 1:
        ctx.check("error-fn-once-own-case", len(ecalls) == 1 and ecalls[0] is exc and not fcalls, (fcalls, ecalls))
        ctx.check("same-exception-kept", o[0] == "error" and o[1] is exc, o)
    else:
        ctx.check("fn-once-own-case", len(fcalls) == 1 and not ecalls, (fcalls, ecalls))
        if form == "flat_map" and ikind == 1:
            ctx.check("inner-failure-propagates", o[0] == "error" and o[1] is inner_exc, o)
        else:
            ctx.check("value-law", o[0] == "value" and eq_term(o[1], x + k), o)
            ctx.reach("value-law")
    return True


ASSUMPTIONS = ["engine X: sync executor and pre-resolved inputs, symbolic int values/constants, behaviour codes enumerated symbolically",
               "engine S: input / inner future completed from other threads, optional cancel of the output"]
BOUNDS_TEXT = {"quick": "X: 7 contracts, 60 s per condition; S: f_map/f_flat_map with 1-3 actor threads, P<=2", "thorough": "X: 240 s; S: P<=3"}
MUST_REACH = {"*": ["value-law"]}
BUDGET = {"quick": 100.0, "thorough": 600.0}


def plan(tier, seed):
    q = tier == "quick"
    P = 3 if q else 5
    return [dict(scenario="async", params=dict(form="map"), bounds=dict(P=P)),
            dict(scenario="async", params=dict(form="map", cancel=True), bounds=dict(P=P)),
            dict(scenario="async", params=dict(form="flat_map"), bounds=dict(P=P)),
            dict(scenario="async", params=dict(form="flat_map", cancel=True), bounds=dict(P=P - 1))]
