"""C03 — no future is lost: once its underlying work is finished, the future finishes."""
from __future__ import annotations

from vf.harness.common import *  # noqa
from vf.harness import entries
from vf.engine import sched

PROPERTY = "C03"
K = 64

STACKS2 = ["stack:timeout+retry", "stack:retry+timeout", "stack:retry+poll", "stack:poll+retry",
           "stack:throttle+retry", "stack:map+poll", "stack:poll+timeout", "stack:throttle+poll",
           "stack:flat_map+retry", "stack:retry+throttle", "stack:timeout+map", "stack:cancel_on_shutdown+retry"]


def scn_lost(ctx):
    """The underlying work of one future ends by value / exception / cancellation from outside
    the derived future / cancel through the derived future; the derived future must be done
    within K*eps of the instant implied by the configuration (never via a fallback timer)."""
    p = ctx.params
    name = p["entry"]
    eps = ctx.eps
    kinds = p.get("kinds", ["value", "error", "cancel", "through"] + (["refused-then-cancel"] if p.get("refusal", True) and not name.startswith("stack:") else []))
    kind = kinds[ctx.choice(len(kinds), "kind")]
    e = entries.build(ctx, name)
    f = e.fut
    t_done = []
    f.add_done_callback(lambda _f: t_done.append(sched.now()))
    t_fin = [None]
    cres = []

    def completer():
        if kind == "refused-then-cancel":
            # a cancel through the derived future is refused by the delegate (not cancellable yet);
            # later the delegate is cancelled by someone else
            for d in list(e.inputs) + ([e.inner] if e.inner is not None else []):
                if isinstance(d, RecFuture):
                    d.refuse_cancels = 1
            sched.point()
            cres.append(f.cancel())
            sched.point()
            e.complete("cancel")
            t_fin[0] = sched.now()
            return
        if kind == "through":
            sched.point()
            cres.append(f.cancel())
            t_fin[0] = sched.now()
            return
        if kind == "never":
            return
        e.complete(kind)
        t_fin[0] = sched.now()

    comp = spawn("completer", completer)
    if kind == "never":
        # only with a short timeout layer: the timeout (2 s) must end the future
        deadline = sched.now() + 2 + K * eps
        wait_done(f, deadline + 1)
        ctx.check("done-at-timeout", bool(t_done) and t_done[0] <= deadline, "%s: done=%s at %s, timeout deadline %r" % (
            name, f.done(), t_done[:1], deadline))
        ctx.reach("timeout-fired")
        e.close()
        return True
    # retry with errors: the second attempt comes 1 s after the first failed
    slack = 1 + 1 if ("retry" in name and kind == "error") else 0
    comp.join(50)
    alive = comp.is_alive()
    if alive:
        # the completer is still waiting for work to be handed to the delegate: nothing more will finish
        pass
    wait_done(f, sched.now() + 40)
    fin = outcome(f)
    if kind == "through" and cres and cres[0] is False:
        # the cancel was refused: the future is legitimately still pending on unfinished work
        ctx.reach("through-refused")
        e.close()
        return True
    ok = ctx.check("future-finishes", fin[0] != "pending",
                   "%s: still pending although the underlying work ended by %s" % (name, kind))
    if ok and t_fin[0] is not None and t_done:
        ctx.check("finishes-promptly", t_done[0] <= t_fin[0] + K * eps,
                  "%s (%s): done at %r, underlying work finished at %r" % (name, kind, t_done[0], t_fin[0]))
        ctx.reach("promptness-checked")
    if ok:
        exp = e.expect("cancel" if kind == "refused-then-cancel" else kind) if kind != "through" else ("cancelled",)
        if kind == "refused-then-cancel" and cres and cres[0] is True:
            exp = ("cancelled",)  # the cancel through the derived future succeeded after all (combinator outputs)
        if exp[0] == "value":
            ctx.check("outcome", fin[0] == "value" and fin[1] == exp[1], "%s: %r, expected %r" % (name, fin, exp))
        elif exp[0] == "error":
            ctx.check("outcome", fin[0] == "error" and fin[1] is exp[1], "%s: %r, expected %r" % (name, fin, exp))
        elif exp[0] == "cancelled":
            ctx.check("outcome", fin[0] == "cancelled", "%s: %r, expected cancelled" % (name, fin))
        else:
            ctx.check("outcome", fin[0] in ("cancelled", "error"), "%s: %r, expected cancelled or failed" % (name, fin))
            ctx.reach("external-cancel-ended")
    e.close()
    return True


class _Ambiguous(object):
    """A result whose truth value cannot be determined (bool() raises, like a numpy array)."""

    def __bool__(self):
        raise ValueError("the truth value of this result is ambiguous")


def scn_values(ctx):
    """Combinators that look at their inputs' results (f_or / f_and test truthiness; f_zip, f_sequence
    and f_apply do not): 2-3 inputs finish in a chosen order with values from a menu that includes
    falsy values of several types and a value whose bool() raises.  Once every input has finished,
    the output has finished - whatever that outcome is."""
    from more_executors import futures as F
    p = ctx.params
    name = p["entry"]
    n = p.get("nin", 2)
    ev = ctx.ev
    ins = [RecFuture(ev, "in%d" % i) for i in range(n)]
    out = {"f_or": F.f_or, "f_and": F.f_and, "f_zip": F.f_zip}[name](*ins)
    menu = [1, 0, "", [], None, _Ambiguous(), entries.Boom("input failed")]
    order = list(range(n))
    if ctx.choice(2, "reverse"):
        order.reverse()
    picks = []
    for i in order:
        k = ctx.choice(len(menu), "value%d" % i)
        picks.append((i, k))
        sched.point()
        v = menu[k]
        if isinstance(v, Exception):
            entries.finish(ins[i], "error", exc=v)
        else:
            entries.finish(ins[i], "value", v)
    sched.vsleep_until(sched.now() + 8 * ctx.eps)
    ctx.check("future-finishes", out.done(), "%s%r: every input has finished, the output is still pending" % (
        name, [(i, type(menu[k]).__name__) for i, k in picks]))
    if name in ("f_or", "f_and") and out.done():
        # Python's own fold over the completion order: `and` / `or` test the truth of every operand but the last
        seq = [menu[k] for _i, k in picks]
        exp = None
        for idx, v in enumerate(seq):
            last = idx == len(seq) - 1
            if isinstance(v, Exception):
                if name == "f_and" or last:
                    exp = ("error", v)
                    break
                continue
            if last:
                exp = ("value", v)
                break
            try:
                t = bool(v)
            except Exception as e_:  # noqa
                exp = ("error-type", type(e_))
                break
            if t == (name == "f_or"):
                exp = ("value", v)
                break
        o = outcome(out)
        if exp[0] == "error-type":
            ok = o[0] == "error" and isinstance(o[1], exp[1])
        else:
            ok = o[0] == exp[0] and o[1] is exp[1]
        ctx.check("outcome-is-pythons-fold", ok, "%s over %r (completion order): got %r, `%s` gives %r" % (
            name, [type(v).__name__ for v in seq], o, name[2:], exp))
    ctx.reach("values-checked")
    return True


def scn_chain(ctx):
    """'All chain lengths': acc = f_map(acc, fn) repeated n times over a head that is still pending,
    then the head finishes (the usual way of folding steps over a future).  Every link finishes."""
    from more_executors import futures as F
    p = ctx.params
    n = p["n"]
    kind = p.get("kind", "f_map")
    ev = ctx.ev
    head = RecFuture(ev, "head")
    links = []
    acc = head
    for _i in range(n):
        if kind == "f_map":
            acc = F.f_map(acc, lambda x: x + 1)
        else:
            acc = F.f_flat_map(acc, lambda x: F.f_return(x + 1))
        links.append(acc)
    entries.finish(head, "value", 0)
    sched.vsleep_until(sched.now() + 8 * ctx.eps)
    pending = [i for i, l in enumerate(links) if not l.done()]
    ctx.check("future-finishes", not pending, "%s chain of %d links over a pending head: links %d..%d are still pending after the head finished" % (
        kind, n, pending[0] if pending else -1, pending[-1] if pending else -1))
    if not pending:
        ctx.check("chain-value", outcome(links[-1]) == ("value", n), outcome(links[-1]))
    ctx.reach("chain-checked")
    return True


ASSUMPTIONS = [
    "fixed configurations per entry point: retry(max_attempts=2, sleep=1), poll(interval=3, poll fn yields at once), throttle(count=1), timeout(5000 | 2)",
    "finish instant: derived future done <= (instant the underlying work ended) + 64*eps; fallback timers (2 s, 30 s, poll interval) are >> 64*eps",
]
BOUNDS_TEXT = {"quick": "18 entry points (P<=2) + 15 two-layer stacks (P<=1 / P=0), 4-5 ways the work ends; line-level preemption (P<=1) inside retry.py / poll.py / throttle.py / timeout.py",
               "thorough": "P<=2 / P<=1"}
MUST_REACH = {"*": ["promptness-checked", "external-cancel-ended", "values-checked", "chain-checked"]}
BUDGET = {"quick": 90.0, "thorough": 600.0}


def plan(tier, seed):
    items = []
    q = tier == "quick"
    for n in entries.ALL_ENTRIES:
        items.append(dict(scenario="lost", params=dict(entry=n), bounds=dict(P=(2 if q else 3))))
    for n in entries.FN_ENTRIES:
        if n != "f_apply":
            items.append(dict(scenario="lost", params=dict(entry=n, predone=True, nin=3), bounds=dict(P=1 if q else 2)))
    for kind, n in (("f_map", 12), ("f_flat_map", 12), ("f_map", 200)):
        items.append(dict(scenario="chain", params=dict(kind=kind, n=n), bounds=dict(P=0, max_steps=400000)))
    for n in ("f_or", "f_and", "f_zip"):
        items.append(dict(scenario="values", params=dict(entry=n, nin=2 if q else 3), bounds=dict(P=0)))
    for n in STACKS2:
        deep = n in ("stack:retry+poll", "stack:poll+retry", "stack:retry+throttle", "stack:map+poll", "stack:flat_map+retry", "stack:timeout+map", "stack:cancel_on_shutdown+retry")
        items.append(dict(scenario="lost", params=dict(entry=n), bounds=dict(P=(1 if deep else 0) if q else (2 if deep else 1))))
    # line mode: every source line of the layer's worker loop / callbacks is a scheduling point
    for n, f_ in (("retry", "retry.py"), ("poll", "poll.py"), ("throttle", "throttle.py"), ("timeout", "timeout.py")):
        items.append(dict(scenario="lost", params=dict(entry=n), bounds=dict(P=1 if q else 2, line_files=["_impl/" + f_])))
    for n in ("stack:timeout_short+retry", "stack:timeout_short+map", "stack:timeout_short+poll"):
        items.append(dict(scenario="lost", params=dict(entry=n, kinds=["never", "value"]), bounds=dict(P=1 if q else 2)))
    return items
