"""C16 — see vf/contracts/c16_apply.py (engine X) and scn_* below (engine S)."""
from __future__ import annotations

from vf.harness.common import *  # noqa
from vf.harness.entries import finish, Boom
from vf.engine import sched

PROPERTY = "C16"


def contracts(tier):
    return [dict(file="c16_apply.py", timeout=150 if tier == "quick" else 400)]


def _completers(ctx, ins, kinds, vals, excs, split):
    """Two completer threads finish the inputs (thread A those with index in split, B the rest),
    each logging the real-time interval of its completing call."""
    ev = ctx.ev

    def comp(idxs):
        for i in idxs:
            if kinds[i] == 3:
                continue
            sched.point()
            ev.add("fin_begin", i=i)
            k = ("value", "error", "cancel")[kinds[i]]
            finish(ins[i], k, vals[i], excs[i])
            ev.add("fin_end", i=i)

    a = [i for i in range(len(ins)) if i in split]
    b = [i for i in range(len(ins)) if i not in split]
    return [spawn("compA", comp, a), spawn("compB", comp, b)]


def _linearizations(ctx, n, kinds):
    """All total orders of the finished inputs consistent with real-time precedence."""
    import itertools
    ev = ctx.ev
    beg = dict((e["i"], e["seq"]) for e in ev.of("fin_begin"))
    end = dict((e["i"], e["seq"]) for e in ev.of("fin_end"))
    fin = [i for i in range(n) if i in end]
    for perm in itertools.permutations(fin):
        ok = True
        for x in range(len(perm)):
            for y in range(x + 1, len(perm)):
                # perm[y] must not strictly precede perm[x] in real time
                if end[perm[y]] < beg[perm[x]]:
                    ok = False
        if ok:
            yield list(perm)


def scn_apply(ctx):
    """f_apply(fn_future, 2 positional, 1 keyword argument futures) completed by two threads."""
    from more_executors.futures import f_apply

    p = ctx.params
    ev = ctx.ev
    names = ["fn", "p0", "p1", "kw"]
    ins = [RecFuture(ev, nm) for nm in names]
    calls = []
    fn_raises = bool(ctx.choice(2, "fn-raises"))
    boom = Boom("fn")

    def fn(*a, **kw):
        calls.append((a, sorted(kw.items()), [f.done() for f in ins]))
        if fn_raises:
            raise boom
        return ("r", a, sorted(kw.items()))

    vals = [fn, ctx.int("a0"), ctx.int("a1"), ctx.int("k0")]
    fail = ctx.choice(5, "fail-at") - 1  # -1 none
    kinds = [1 if i == fail else 0 for i in range(4)]
    excs = [Boom("in%d" % i) for i in range(4)]
    if p.get("predone"):
        # a mix of inputs already finished at creation and inputs finishing later
        pre = ctx.choice(4, "predone") + 1  # 1..3: fn / p1 / kw already finished; 4: p1 and kw
        for i in {1: [0], 2: [2], 3: [3], 4: [2, 3]}[pre]:
            if kinds[i] == 0:
                finish(ins[i], "value", vals[i], None)
                kinds[i] = 3  # the completer threads skip it
    out = f_apply(ins[0], ins[1], ins[2], z=ins[3])
    ths = _completers(ctx, ins, kinds, vals, excs, p.get("split", [0, 2]))
    for t in ths:
        t.join(BIG)
    wait_done(out, sched.now() + 5)
    got = outcome(out)
    ctx.check("finishes", got[0] != "pending", got)
    if fail >= 0:
        ctx.check("input-failure-propagates", got[0] == "error" and got[1] is excs[fail], got)
        ctx.check("fn-not-called-on-failure", not calls, calls)
        ctx.reach("failure-checked")
        return True
    ctx.check("called-exactly-once", len(calls) == 1, "fn called %d times" % len(calls))
    if calls:
        a, kw, dones = calls[0]
        ctx.check("called-after-all-inputs", all(dones), dones)
        ok = len(a) == 2 and bool(eq_term(a[0], vals[1])) and bool(eq_term(a[1], vals[2])) and len(kw) == 1 and kw[0][0] == "z" and bool(eq_term(kw[0][1], vals[3]))
        ctx.check("arguments-in-place", ok, "called with %r %r" % (a, kw))
        ctx.reach("args-checked")
    if fn_raises:
        ctx.check("fn-failure-propagates", got[0] == "error" and got[1] is boom, got)
    else:
        ctx.check("result-is-direct-call", got[0] == "value" and got[1][0] == "r", got)
    return True


ASSUMPTIONS = ["X: 0-3 positional x 0-2 keyword argument futures, all completion orders of the first four inputs, failing input at any position, fn raising; S: fn + 2 positional + 1 keyword, two completer threads, optionally some inputs finished before f_apply is called; X also every mix (mask over 5 inputs) of inputs done at call time"]
BOUNDS_TEXT = {"quick": "X: 15 contracts (90 s each); S: P<=1", "thorough": "X: 400 s; S: P<=2"}
MUST_REACH = {"*": ["args-checked", "failure-checked"]}
BUDGET = {"quick": 120.0, "thorough": 600.0}


def plan(tier, seed):
    P = 1 if tier == "quick" else 2
    return [dict(scenario="apply", params=dict(split=[0, 2]), bounds=dict(P=P)),
            dict(scenario="apply", params=dict(split=[1]), bounds=dict(P=P)),
            dict(scenario="apply", params=dict(split=[0, 2], predone=True), bounds=dict(P=P))]
