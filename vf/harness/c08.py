"""C08 — poll: one poll at a time, exact descriptor set, first yield wins, prompt polls."""
from __future__ import annotations

from vf.harness.common import *  # noqa
from vf.harness.entries import finish, Boom
from vf.engine import sched

PROPERTY = "C08"
K = 64


class PollBoom(Exception):
    pass


class YieldedError(Exception):
    pass


def scn_poll(ctx):
    from more_executors.poll import PollExecutor

    p = ctx.params
    n = p.get("n", 2)
    maxcalls = p.get("script_calls", 2)
    with_cancel = p.get("cancel", False)
    with_notify = p.get("notify", False)
    eps = ctx.eps
    ev = ctx.ev
    me = ManualExecutor(ev)
    if p.get("huge_interval"):
        # an interval that means "only when told": beyond what a timed wait accepts (threading.TIMEOUT_MAX ~ 9.2e9 s)
        from fractions import Fraction
        interval = SReal(Fraction(10 ** 10))
    else:
        interval = ctx.real("interval", lo=1, hi=10)
    import threading
    gate = threading.Event()
    in_poll = [0]
    ncall = [0]
    concurrent = [False]
    cancel_fn_calls = []

    def poll_fn(descriptors):
        k = ncall[0]
        ncall[0] += 1
        tags = [d.result[1] if isinstance(d.result, tuple) else None for d in descriptors]
        rec = ev.add("poll_begin", call=k, tags=list(tags), results=[d.result for d in descriptors])
        if in_poll[0]:
            concurrent[0] = True
        in_poll[0] += 1
        try:
            sched.point()
            if p.get("during_poll") and descriptors and not gate.is_set():
                # a slow poll function: the next delegate finishes while this call is in progress
                gate.set()
                sched.vsleep_until(sched.now() + 16 * eps)
            if in_poll[0] > 1:
                concurrent[0] = True
            scripted = k < maxcalls
            if scripted and descriptors and ctx.choice(2, "poll%d-raises" % k):
                exc = PollBoom("poll call %d" % k)
                ev.add("poll_raise", call=k, exc=exc, tags=list(tags))
                raise exc
            for d, tg in zip(descriptors, tags):
                act = ctx.choice(5 if p.get("double_yields") else 3, "poll%d-act%s" % (k, tg)) if scripted else 1
                # 0 nothing, 1 yield value, 2 yield exception, 3 value then exception, 4 exception then value
                if act in (3, 4):
                    exc = YieldedError("yielded %s.%d" % (tg, k))
                    for which in ((1, 2) if act == 3 else (2, 1)):
                        if which == 1:
                            ev.add("yield_begin", tag=tg, ykind="value", call=k)
                            d.yield_result(("out", tg, k))
                            ev.add("yield_end", tag=tg, ykind="value", call=k, value=("out", tg, k))
                        else:
                            ev.add("yield_begin", tag=tg, ykind="error", call=k)
                            d.yield_exception(exc)
                            ev.add("yield_end", tag=tg, ykind="error", call=k, value=exc)
                    sched.point()
                    continue
                if act == 1:
                    ev.add("yield_begin", tag=tg, ykind="value", call=k)
                    d.yield_result(("out", tg, k))
                    ev.add("yield_end", tag=tg, ykind="value", call=k, value=("out", tg, k))
                elif act == 2:
                    exc = YieldedError("yielded %s.%d" % (tg, k))
                    ev.add("yield_begin", tag=tg, ykind="error", call=k)
                    d.yield_exception(exc)
                    ev.add("yield_end", tag=tg, ykind="error", call=k, value=exc)
                sched.point()
        finally:
            in_poll[0] -= 1
            ev.add("poll_end", call=k)
        return None

    def cancel_fn(result):
        c = ctx.choice(3, "cancelfn")  # 0 True, 1 False, 2 raise
        cancel_fn_calls.append((result, c))
        ev.add("cancel_fn", result=result, verdict=c)
        if c == 2:
            raise RuntimeError("cancel function failed")
        return c == 0

    cfn = cancel_fn if with_cancel else None
    if with_cancel and p.get("falsy_cancel_fn"):
        class Vetoes(list):
            """a cancel function that is a falsy object (an empty list of veto rules that is callable)"""

            def __call__(self, result):
                return cancel_fn(result)
        cfn = Vetoes()
    ex = PollExecutor(me, poll_fn, cfn, default_interval=interval)
    futs = [ex.submit(lambda i=i: ("r", i)) for i in range(n)]
    dels = list(me.submitted)
    kinds = [ctx.choice(2, "delegate%d-kind" % i) for i in range(n)]  # 0 value, 1 error

    def completer():
        for i, d in enumerate(dels):
            if i == 1 and p.get("during_poll") and kinds[0] == 0:
                gate.wait(BIG)  # (set by the first poll call that is shown a descriptor)
            sched.point()
            ev.add("complete_begin", tag=i)
            if kinds[i] == 0:
                finish(d, "value", ("r", i))
            else:
                finish(d, "error", exc=Boom(("r", i)))
            ev.add("complete_end", tag=i, dkind=kinds[i])

    def canceller():
        sched.point()
        j = n - 1
        ev.add("user_cancel_begin", tag=j)
        try:
            r = futs[j].cancel()
        except Exception as x:  # noqa
            ev.add("user_cancel_raised", tag=j, exc=repr(x))
            return
        ev.add("user_cancel_end", tag=j, result=r)

    def notifier():
        sched.vsleep_until(sched.now() + interval / 2)
        ev.add("notify")
        ex.notify()

    ths = [spawn("completer", completer)]
    if with_cancel or p.get("plain_cancel"):
        ths.append(spawn("canceller", canceller))
    if with_notify:
        ths.append(spawn("notifier", notifier))
    for t in ths:
        t.join(BIG)
    for f in futs:
        wait_done(f, sched.now() + interval * (maxcalls + 3) + 5)
    sched.vsleep_until(sched.now() + 4 * K * eps)  # let a poll triggered at the very end begin
    items = ev.items
    finals = [outcome(f) for f in futs]
    ctx.check("poll-never-concurrent", not concurrent[0], "poll function ran concurrently with itself")
    for x in ev.of("user_cancel_raised"):
        ctx.check("cancel-raises-nothing", False, x["exc"])

    def first(kind, **kw):
        r = ev.of(kind, **kw)
        return r[0] if r else None

    # The resolving call of a future is the one its final outcome comes from: the yield whose
    # value/exception it carries, the raising poll call whose exception it carries, or the
    # cancel() that returned True.  resolving[i] = [begin_seq, end_seq]
    resolving = {}
    for i in range(n):
        o = finals[i]
        if o[0] == "cancelled":
            b = ev.of("user_cancel_begin", tag=i)
            e_ = [x for x in ev.of("user_cancel_end", tag=i) if x["result"]]
            if b and e_:
                resolving[i] = [[b[0]["seq"], e_[0]["seq"]]]
        elif o[0] in ("value", "error"):
            for x in items:
                if x["k"] == "yield_end" and x["tag"] == i and (x["value"] is o[1] or (o[0] == "value" and x["value"] == o[1])):
                    b = [y for y in items if y["k"] == "yield_begin" and y["tag"] == i and y["call"] == x["call"]]
                    resolving[i] = [[b[0]["seq"], x["seq"]]]
                    break
                if x["k"] == "poll_raise" and i in x["tags"] and o[0] == "error" and o[1] is x["exc"]:
                    end = [y for y in items if y["k"] == "poll_end" and y["call"] == x["call"]]
                    resolving[i] = [[x["seq"], end[0]["seq"] if end else None]]
                    break
    for pb in ev.of("poll_begin"):
        tags = pb["tags"]
        ctx.check("no-duplicate-descriptors", len(set(tags)) == len(tags), "poll call %d got %s" % (pb["call"], tags))
        for i in range(n):
            cb = first("complete_begin", tag=i)
            ce = first("complete_end", tag=i)
            completed_ok_before = ce is not None and ce["seq"] < pb["seq"] and kinds[i] == 0
            completion_not_begun = cb is None or cb["seq"] > pb["seq"]
            res = [r_ for r_ in resolving.get(i, []) if r_[1] != -1]
            begun_before = [r_ for r_ in res if r_[0] < pb["seq"]]
            returned_before = [r_ for r_ in res if r_[1] is not None and r_[1] < pb["seq"]]
            if kinds[i] == 1 or completion_not_begun or returned_before:
                ctx.check("no-stale-descriptor", i not in tags, "poll call %d was shown future %d (delegate failed / not finished / already resolved); tags %s" % (pb["call"], i, tags))
            elif completed_ok_before and not begun_before:
                ctx.check("no-missing-descriptor", i in tags, "poll call %d was not shown future %d whose delegate had finished; tags %s" % (pb["call"], i, tags))
                ctx.reach("must-present")
        for tg, res_ in zip(tags, pb["results"]):
            ctx.check("descriptor-carries-delegate-result", res_ == ("r", tg), "%r for future %s" % (res_, tg))
    # outcomes: first yield wins; raising call fails what it was shown; failed delegate propagates
    for i, f in enumerate(futs):
        o = outcome(f)
        evs = [x for x in items if (x["k"] == "yield_end" and x["tag"] == i) or (x["k"] == "poll_raise" and i in x["tags"])
               or (x["k"] == "user_cancel_end" and x["tag"] == i and x["result"])]
        if o[0] == "error":
            # "exactly the futures it was shown": a poll call's exception never reaches a future it was not shown
            for pr in ev.of("poll_raise"):
                if o[1] is pr["exc"]:
                    ctx.check("raising-poll-fails-only-shown-futures", i in pr["tags"],
                              "future %d failed with the error of poll call %d, which was shown only %s" % (i, pr["call"], pr["tags"]))
        if kinds[i] == 1:
            cancelled_first = any(x["k"] == "user_cancel_end" and x["result"] and x["seq"] < first("complete_end", tag=i)["seq"] for x in evs) if first("complete_end", tag=i) else False
            if not cancelled_first and o[0] != "cancelled":
                ctx.check("failed-delegate-fails-future", o[0] == "error" and isinstance(o[1], Boom), "future %d: %r" % (i, o))
            continue
        if not evs:
            continue
        x = evs[0]
        if x["k"] == "yield_end":
            if x["ykind"] == "value":
                okk = o == ("value", x["value"])
            else:
                okk = o[0] == "error" and o[1] is x["value"]
            # a cancel racing with the first yield may legitimately win
            racing_cancel = any(y["k"] == "user_cancel_end" and y["tag"] == i and y["result"] for y in items)
            ctx.check("first-yield-wins", okk or (racing_cancel and o == ("cancelled",)), "future %d: outcome %r, first yield %r (%s)" % (i, o, x["value"], x["ykind"]))
            ctx.reach("yield-checked")
        elif x["k"] == "poll_raise":
            racing_cancel = any(y["k"] == "user_cancel_end" and y["tag"] == i and y["result"] for y in items)
            ctx.check("raising-poll-fails-shown-futures", (o[0] == "error" and o[1] is x["exc"]) or (racing_cancel and o == ("cancelled",)),
                      "future %d: %r after poll raised %r" % (i, o, x["exc"]))
            ctx.reach("poll-raise-checked")
        else:
            ctx.check("cancelled-stays", o == ("cancelled",), "future %d: %r" % (i, o))
    # promptness: a newly eligible future / notify() triggers a poll without waiting out the interval
    pbs = ev.of("poll_begin")
    pes = ev.of("poll_end")
    triggers = [x for x in items if (x["k"] == "complete_end" and x["dkind"] == 0) or x["k"] == "notify"]
    for tr in triggers:
        nxt = [b for b in pbs if b["seq"] > tr["seq"]]
        # a poll in progress at the trigger must end first
        inprog = [b for b in pbs if b["seq"] < tr["seq"] and not any(e_["call"] == b["call"] and e_["seq"] < tr["seq"] for e_ in pes)]
        base = tr["t"]
        if inprog:
            e_ = [e2 for e2 in pes if e2["call"] == inprog[0]["call"]]
            if e_:
                base = e_[0]["t"]
        if tr["k"] == "complete_end":
            tg = tr["tag"]
            # only if the future was not resolved (cancelled) before anybody could poll it
            if outcome(futs[tg]) == ("cancelled",):
                continue
        ok = bool(nxt) and bool(nxt[0]["t"] <= base + K * eps)
        ctx.check("poll-prompt", ok, "%s at %r: next poll began at %s" % (tr["k"], tr["t"], nxt[0]["t"] if nxt else None))
        ctx.reach("prompt-checked")
    # cancel function: consulted only in the polling stage, with the delegate's result; False/raise vetoes
    for uc in ev.of("user_cancel_end"):
        j = uc["tag"]
        b = [x for x in ev.of("user_cancel_begin", tag=j)][0]
        cf = [x for x in ev.of("cancel_fn") if b["seq"] < x["seq"] < uc["seq"]]
        for x in cf:
            ctx.check("cancel-fn-gets-delegate-result", x["result"] == ("r", j), repr(x["result"]))
            ce = first("complete_end", tag=j)
            cbeg = first("complete_begin", tag=j)
            ctx.check("cancel-fn-only-when-polling", cbeg is not None and cbeg["seq"] < x["seq"] and kinds[j] == 0,
                      "cancel function consulted for a future whose delegate had not finished successfully")
            if x["verdict"] != 0:
                ctx.check("cancel-fn-veto", uc["result"] is False, "cancel() returned %r although the cancel function said %s" % (uc["result"], ("True", "False", "raise")[x["verdict"]]))
                ctx.reach("veto-checked")
        ctx.check("cancel-fn-at-most-once", len(cf) <= 1, "cancel function called %d times for one cancel()" % len(cf))
        shown_before = [pb for pb in ev.of("poll_begin") if pb["seq"] < b["seq"] and j in pb["tags"]]
        if with_cancel and shown_before and uc["result"] is True:
            # it was in the polling stage (already shown to a poll call) when cancel() began, and the cancel went through
            ctx.check("cancel-fn-consulted-in-polling-stage", len(cf) == 1, "cancel() of a future being polled returned True without asking the cancel function")
    ex.shutdown(wait=True)
    return True


ASSUMPTIONS = ["poll function scripted for its first `script_calls` calls (per descriptor: nothing / yield value / yield exception; or the whole call raises), later calls yield every descriptor",
               "delegates are completed one after another by a completer thread (value or exception); interval symbolic in [1,10]",
               "operation intervals: a resolving call is a yield_result/yield_exception call, a raising poll call, or a cancel() that returned True"]
BOUNDS_TEXT = {"quick": "2 futures, 2 scripted poll calls, optional cancel()/cancel function/notify(), a delegate finishing while a (slow) poll call is in progress; P<=1", "thorough": "3 futures, P<=2"}
MUST_REACH = {"*": ["must-present", "yield-checked", "poll-raise-checked", "prompt-checked"]}
BUDGET = {"quick": 150.0, "thorough": 600.0}


def plan(tier, seed):
    q = tier == "quick"
    if q:
        return [
            dict(scenario="poll", params=dict(n=2, script_calls=2), bounds=dict(P=1)),
            dict(scenario="poll", params=dict(n=2, script_calls=1, cancel=True), bounds=dict(P=1)),
            dict(scenario="poll", params=dict(n=2, script_calls=1, plain_cancel=True), bounds=dict(P=1)),
            dict(scenario="poll", params=dict(n=1, script_calls=2, notify=True), bounds=dict(P=1)),
            dict(scenario="poll", params=dict(n=2, script_calls=1, double_yields=True), bounds=dict(P=0)),
            dict(scenario="poll", params=dict(n=2, script_calls=2, during_poll=True), bounds=dict(P=1)),
            dict(scenario="poll", params=dict(n=1, script_calls=1, cancel=True, falsy_cancel_fn=True), bounds=dict(P=1)),
            dict(scenario="poll", params=dict(n=2, script_calls=1, huge_interval=True), bounds=dict(P=0)),
        ]
    return [
        dict(scenario="poll", params=dict(n=3, script_calls=2), bounds=dict(P=1)),
        dict(scenario="poll", params=dict(n=2, script_calls=2), bounds=dict(P=2)),
        dict(scenario="poll", params=dict(n=2, script_calls=2, cancel=True), bounds=dict(P=2)),
        dict(scenario="poll", params=dict(n=2, script_calls=2, notify=True, plain_cancel=True), bounds=dict(P=1)),
        dict(scenario="poll", params=dict(n=3, script_calls=2, during_poll=True), bounds=dict(P=1)),
        dict(scenario="poll", params=dict(n=2, script_calls=2, during_poll=True, plain_cancel=True), bounds=dict(P=1)),
    ]
