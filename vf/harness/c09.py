"""C09 — timeouts fire exactly once, never early, and at the deadline."""
from __future__ import annotations

from vf.harness.common import *  # noqa
from fractions import Fraction

from vf.engine import sched

PROPERTY = "C09"
K = 40  # clock reads / wake-ups allowed between a deadline and its cancel (checked <= K*eps)


def _mk(ctx, form):
    from more_executors import Executors, TimeoutExecutor  # noqa

    ev = Ev()
    me = ManualExecutor(ev)
    return ev, me


SEP = 64  # separation (in eps) between "well before"/"well after" instants and a deadline


def scn_timeouts(ctx):
    """n futures through TimeoutExecutor(ManualExecutor) or f_timeout; symbolic default and
    per-call timeouts, symbolic submission instants, 1-2 submitter threads; each delegate
    never completes / completes well before / well after / exactly at its deadline."""
    from more_executors import TimeoutExecutor
    from more_executors.futures import f_timeout

    p = ctx.params
    n = p.get("n", 2)
    form = p.get("form", "executor")  # executor | f_timeout
    eps = ctx.eps
    ev = ctx.ev
    me = ManualExecutor(ev)
    Tdef = ctx.real("Tdef", lo=0, hi=10 ** 6)
    ctx.assume(s_or(Tdef == 0, Tdef >= SEP * 2 * eps))
    te = TimeoutExecutor(me, Tdef) if form == "executor" else None
    horizon = Tdef + 1
    specs = []
    for i in range(n):
        if p.get("huge") and i == 0:
            # a timeout that means "never": beyond what a timed wait accepts (threading.TIMEOUT_MAX ~ 9.2e9 s)
            T = SReal(Fraction(10 ** 10))
        else:
            T = ctx.real("T%d" % i, lo=0, hi=10 ** 6)
            ctx.assume(s_or(T == 0, T >= SEP * 2 * eps))
        s = ctx.real("s%d" % i, lo=0)
        c = ctx.real("c%d" % i, lo=0)
        percall = (ctx.choice(2, "percall%d" % i) if p.get("percall_choice", True) else 1) if form == "executor" else 1
        # 0 never, 1 value well before, 2 value well after, 3 value at the deadline (race),
        # 4 cancelled by someone else well before
        regimes = p.get("regimes", [0, 1, 2, 3, 4])
        regime = regimes[ctx.choice(len(regimes), "regime%d" % i)]
        specs.append(dict(i=i, T=T if percall else Tdef, s=s, c=c, percall=percall, regime=regime))
        horizon = horizon + T + s + c
    futs = [None] * n
    dels = [None] * n
    t_start = [None] * n
    t_ret = [None] * n
    t_compl = [None] * n
    ths = []

    def completer(sp):
        i = sp["i"]
        sched.vsleep_until(sp["c"])
        d = dels[i]
        t_compl[i] = sched.now()
        if sp["regime"] == 4:
            Future.cancel(d)  # someone else cancels the delegate (not a timeout cancel)
            d.set_running_or_notify_cancel()
        else:
            if d.set_running_or_notify_cancel():
                d.set_result(100 + i)
                ev.add("completed", i=i)

    def submitter(sp):
        i = sp["i"]
        sched.vsleep_until(sp["s"])
        t_start[i] = sched.now()
        if form == "executor":
            fn = (lambda i=i: i)
            if sp["percall"]:
                f = te.submit_timeout(sp["T"], fn)
            else:
                f = te.submit(fn)
            dels[i] = [d for d in me.submitted if d.fn is fn][0]
        else:
            d = RecFuture(ev, "in#%d" % i)
            dels[i] = d
            f = f_timeout(d, sp["T"])
        futs[i] = f
        t_ret[i] = sched.now()
        ev.add("submitted", i=i)
        rg = sp["regime"]
        T, c = sp["T"], sp["c"]
        if rg == 5:
            dels[i].refuse_cancels = 10  # the delegate refuses every cancel attempt and never completes
            return
        if rg in (1, 4):
            ctx.assume(s_and(c >= t_ret[i], c + SEP * eps <= t_start[i] + T))
        elif rg == 2:
            ctx.assume(c >= t_ret[i] + T + SEP * eps)
        elif rg == 3:
            ctx.assume(c == t_ret[i] + T)
        if rg:
            ths.append(spawn("comp%d" % i, completer, sp))

    nthreads = p.get("submitters", 1)
    groups = [[] for _ in range(nthreads)]
    for sp in specs:
        groups[sp["i"] % nthreads].append(sp)

    def run_group(g):
        for sp in g:
            submitter(sp)

    for g in groups:
        for a, b in zip(g, g[1:]):
            ctx.assume(a["s"] <= b["s"])
    subs = [spawn("sub%d" % gi, run_group, g) for gi, g in enumerate(groups)]
    sched.vsleep_until(horizon)
    for t in subs:
        t.join(BIG)
    for t in ths:
        t.join(BIG)
    for sp in specs:
        i = sp["i"]
        d = dels[i]
        f = futs[i]
        if d is None or f is None:
            ctx.check("submitted", False, "submission %d did not finish" % i)
            continue
        T = sp["T"]
        calls = d.cancel_calls
        ctx.check("at-most-one-cancel", len(calls) <= 1, "future %d got %d cancel() calls" % (i, len(calls)))
        for (tc, res) in calls:
            # never early: not before (earliest possible creation time) + timeout
            ctx.check("never-early", tc >= t_start[i] + T, "cancel of %d at %r, deadline >= %r" % (i, tc, t_start[i] + T))
        late_deadline = t_ret[i] + T
        rg = sp["regime"]
        if ctx.bounds.get("adversarial"):
            # computation may take arbitrarily long between two clock reads: only "never early" and
            # "at most once" are claimed under this clock, promptness and ordering claims are not
            ctx.reach("adversarial-never-early")
            continue
        if rg == 5:
            ctx.reach("cancel-refused")
            ctx.check("exactly-one-cancel", len(calls) == 1, "future %d: the delegate refused the cancel; %d attempts were made" % (i, len(calls)))
            if calls:
                ctx.check("cancel-at-deadline", calls[0][0] <= late_deadline + K * eps, "cancel at %r, deadline %r" % (calls[0][0], late_deadline))
        elif rg in (0, 2):
            ctx.reach("not-done-at-deadline")
            ok = ctx.check("exactly-one-cancel", len(calls) == 1,
                           "future %d not done at its deadline, cancels=%d" % (i, len(calls)))
            if ok:
                ctx.check("cancel-at-deadline", calls[0][0] <= late_deadline + K * eps,
                          "cancel at %r, deadline %r" % (calls[0][0], late_deadline))
                ctx.check("timed-out-future-cancelled", f.cancelled(), outcome(f))
        elif rg in (1, 4):
            ctx.reach("completed-before-deadline")
            ctx.check("no-cancel-when-completed-first", len(calls) == 0, "future %d" % i)
            if rg == 1:
                ctx.check("keeps-outcome", outcome(f) == ("value", 100 + i), outcome(f))
        else:
            ctx.reach("completed-at-deadline")
            if len(calls) == 0:
                ctx.check("keeps-outcome", outcome(f) == ("value", 100 + i), outcome(f))
            elif len(calls) == 1:
                ctx.check("cancel-at-deadline", calls[0][0] <= late_deadline + K * eps,
                          "cancel at %r, deadline %r" % (calls[0][0], late_deadline))
    if te is not None:
        te.shutdown(wait=True)
    return True


ASSUMPTIONS = ["timeouts are 0 or >= 128*eps and <= 10^6 s, plus one program with a timeout of 10^10 s (beyond threading.TIMEOUT_MAX); a delegate never completes, or completes >= 64*eps before its deadline, >= 64*eps after it, or exactly at it (race resolved by the schedule), or is cancelled by someone else well before",
               "never-early is asserted against the earliest possible creation instant (start of the submit call); exactly-then as cancel <= (return of submit) + T + 40*eps"]
BOUNDS_TEXT = {"quick": "1 future (executor and f_timeout forms, P<=1); 2 futures from 2 submitter threads with symbolic instants (P=0)",
               "thorough": "1 future P<=2; 2 futures P<=1; 3 futures P=0; adversarial clock (each read advances by an arbitrary step in (0, 1000 s]) for never-early"}
MUST_REACH = {"*": ["not-done-at-deadline", "completed-before-deadline", "completed-at-deadline"]}
BUDGET = {"quick": 150.0, "thorough": 600.0}


def plan(tier, seed):
    T = "timeouts"
    if tier == "quick":
        return [dict(scenario=T, params=dict(n=1, form="executor", regimes=[0, 1, 2, 3, 4, 5]), bounds=dict(P=1)),
                dict(scenario=T, params=dict(n=1, form="f_timeout"), bounds=dict(P=0)),
                dict(scenario=T, params=dict(n=2, form="executor", submitters=1, regimes=[0, 1, 3], percall_choice=False), bounds=dict(P=0)),
                dict(scenario=T, params=dict(n=2, form="executor", submitters=1, regimes=[0, 1], percall_choice=False, huge=True), bounds=dict(P=0))]
    return [dict(scenario=T, params=dict(n=1, form="executor"), bounds=dict(P=2)),
            dict(scenario=T, params=dict(n=1, form="f_timeout"), bounds=dict(P=2)),
            dict(scenario=T, params=dict(n=1, form="executor", regimes=[0, 1, 2]), bounds=dict(P=1, adversarial=True)),
            dict(scenario=T, params=dict(n=2, form="executor", submitters=2), bounds=dict(P=0)),
            dict(scenario=T, params=dict(n=2, form="executor", submitters=1, regimes=[0, 1, 3]), bounds=dict(P=1)),
            dict(scenario=T, params=dict(n=3, form="executor", submitters=2, regimes=[0, 1], percall_choice=False), bounds=dict(P=0))]
