"""C19 — bind / flat_bind chains are equivalent to the executor chain; names propagate."""
from __future__ import annotations

import itertools

from vf.harness.common import *  # noqa
from vf.engine import sched

PROPERTY = "C19"
LAYERS = ["map", "flat_map", "retry", "poll", "throttle", "timeout", "cancel_on_shutdown"]
PREFIX = {"retry": "RetryExecutor-", "poll": "PollExecutor-", "throttle": "ThrottleExecutor-", "timeout": "TimeoutExecutor-"}


def contracts(tier):
    return [dict(file="c19_bind.py", timeout=120 if tier == "quick" else 400)]


def _apply(ex, ln, name=None):
    from more_executors.futures import f_return
    kw = {} if name is None else {"name": name}
    if ln == "map":
        return ex.with_map(lambda v: v + 1, **kw)
    if ln == "flat_map":
        return ex.with_flat_map(lambda v: f_return(v + 2), **kw)
    if ln == "retry":
        return ex.with_retry(max_attempts=2, sleep=0.5, **kw)
    if ln == "poll":
        def pfn(ds):
            for d in ds:
                d.yield_result(d.result + 3)
        return ex.with_poll(pfn, default_interval=2.0, **kw)
    if ln == "throttle":
        return ex.with_throttle(1, **kw)
    if ln == "timeout":
        return ex.with_timeout(1000, **kw)
    return ex.with_cancel_on_shutdown(**kw)


def scn_bind(ctx):
    """E.chain1.bind(fn).chain2(*args) vs E.chain1.chain2.submit(fn, *args): same outcome, same
    invocations (layers with worker threads; the pair is run back to back)."""
    from more_executors import Executors

    p = ctx.params
    before, after, base = p["before"], p["after"], p.get("base", "sync")
    x = ctx.int("x")
    fails = ctx.choice(2, "fn-fails-first")
    res = []
    for variant in ("bind", "submit"):
        calls = []

        def fn(v, y=0, calls=calls):
            calls.append((v, y))
            if fails and len(calls) == 1:
                raise Boom_("first")
            return v * 2 + y

        ex = Executors.sync() if base == "sync" else Executors.thread_pool(max_workers=1)
        root = ex
        for ln in before:
            ex = _apply(ex, ln)
        if variant == "bind":
            b = ex.bind(fn)
            for ln in after:
                b = _apply(b, ln)
            f = b(x, y=5)
        else:
            for ln in after:
                ex = _apply(ex, ln)
            f = ex.submit(fn, x, y=5)
        wait_done(f, sched.now() + 50)
        res.append((outcome(f), list(calls)))
        root.shutdown(wait=False)
    (oa, ca), (ob, cb) = res
    ctx.check("both-finish", oa[0] != "pending" and ob[0] != "pending", (oa, ob))
    same = oa[0] == ob[0] and (oa[0] != "value" or bool(eq_term(oa[1], ob[1]))) and (oa[0] != "error" or type(oa[1]) is type(ob[1]))
    ctx.check("same-outcome", same, "bind chain %r vs executor chain %r" % (oa, ob))
    ctx.check("same-invocations", len(ca) == len(cb) and all(bool(eq_term(a[0], b[0])) and a[1] == b[1] for a, b in zip(ca, cb)), (ca, cb))
    ctx.reach("pair-compared")
    return True


class Boom_(Exception):
    pass


def scn_names(ctx):
    """A name given to the base executor (or to a layer) is inherited by every layer created by
    chaining - also across bind() - and appears in the names of the threads those layers create."""
    from more_executors import Executors

    p = ctx.params
    layers = p["layers"]
    bind_at = p.get("bind_at")  # position in the chain at which bind(fn) is applied (None: no bind)
    base = p.get("base", "pool")
    named = [ctx.choice(2, "named%d" % i) for i in range(len(layers))]
    ex = Executors.thread_pool(max_workers=1, name="base-name") if base == "pool" else Executors.sync(name="base-name")
    root = ex
    in_force = "base-name"
    expected = []
    obj = ex
    from more_executors.futures import f_return
    flat = bool(ctx.choice(2, "flat_bind")) if bind_at is not None else False

    # the bound callable: a plain function, or a callable object with attributes of its own
    # (one of them called _name, as objects often have)
    objkind = bool(ctx.choice(2, "callable-object")) if bind_at is not None else False

    class Task(object):
        def __init__(self):
            self._name = "the-tasks-own-name"
            self.name = "task"

        def __call__(self, v=1):
            return f_return(v) if flat else v

    def do_bind(o):
        if objkind:
            return o.flat_bind(Task()) if flat else o.bind(Task())
        return o.flat_bind(lambda v=1: f_return(v)) if flat else o.bind(lambda v=1: v)

    for i, ln in enumerate(layers):
        if bind_at == i:
            obj = do_bind(obj)
        nm = None
        if named[i]:
            nm = "layer%d-name" % i
            in_force = nm
        obj = _apply(obj, ln, nm)
        if ln in PREFIX:
            expected.append((PREFIX[ln], in_force))
    if bind_at is not None and bind_at >= len(layers):
        obj = do_bind(obj)
    names = [t.name for t in ctx.sched.threads]
    for pfx, nm in expected:
        ctx.check("thread-name-carries-name-in-force", any(n.startswith(pfx) and nm in n for n in names),
                  "no thread named %s*%s* among %s (layers %s, bind at %s)" % (pfx, nm, names, layers, bind_at))
        ctx.reach("name-checked")
    if base == "pool":
        f = root.submit(lambda: 1)
        f.result(10)
        names = [t.name for t in ctx.sched.threads]
        ctx.check("pool-thread-name", any("base-name" in n for n in names if n.startswith("ThreadPoolExecutor-")), names)
    root.shutdown(wait=False)
    return True


ASSUMPTIONS = ["X: thread-free layers (map, flat_map, map+error_fn, cancel_on_shutdown) in chains of total length <= 3 with bind at any position; plain function, partial and callable object; symbolic int arguments",
               "S: chains with worker-thread layers compared pairwise back to back (P=0); names: every layer type, explicit names chosen by the explorer, bind at every position"]
BOUNDS_TEXT = {"quick": "X: 2 contracts; S: 49 (before, after) single-layer pairs over sync + 7 over a pool; names over all chains of length <= 2 x bind position", "thorough": "chains of length 3"}
MUST_REACH = {"*": ["pair-compared", "name-checked"]}
BUDGET = {"quick": 120.0, "thorough": 600.0}


def plan(tier, seed):
    q = tier == "quick"
    items = []
    for b, a in itertools.product([[]] + [[l] for l in LAYERS], [[]] + [[l] for l in LAYERS]):
        items.append(dict(scenario="bind", params=dict(before=b, after=a, base="sync"), bounds=dict(P=0)))
    for l in LAYERS:
        items.append(dict(scenario="bind", params=dict(before=[l], after=["retry"], base="pool"), bounds=dict(P=0)))
    chains = [[l] for l in LAYERS] + [list(c) for c in itertools.product(LAYERS, LAYERS)]
    if not q:
        chains += [list(c) for c in itertools.product(["retry", "poll", "map"], LAYERS, ["throttle", "timeout", "retry"])]
    for ch in chains:
        for bind_at in [None] + list(range(len(ch) + 1)):
            items.append(dict(scenario="names", params=dict(layers=ch, bind_at=bind_at, base="pool" if len(ch) == 1 else "sync"), bounds=dict(P=0)))
    return items
