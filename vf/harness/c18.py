"""C18 — faults in user code stay with their own future; worker threads survive."""
from __future__ import annotations

import threading

from vf.harness.common import *  # noqa
from vf.harness.entries import Boom
from vf.engine import sched

PROPERTY = "C18"


class Injected(Exception):
    pass


def scn_faults(ctx):
    """A stack whose every user-supplied function is wrapped as a fault site; up to `nfaults`
    faults '(site, k-th call) raises' are chosen by the explorer.  Two tagged submissions, an
    optional concurrent cancel, then a clean probe submission that must complete."""
    from more_executors import Executors
    from more_executors.retry import RetryPolicy
    from more_executors.futures import f_return

    p = ctx.params
    layers = p["layers"]
    nfaults = p.get("nfaults", 1)
    do_cancel = p.get("cancel", False)
    ev = ctx.ev
    me = ManualExecutor(ev)
    counts = {}
    in_policy = threading.Event()
    cancelled_once = threading.Event()
    armed = [True]
    faults = {}  # (site, k) -> Injected instance (chosen lazily per call)
    budget = [nfaults]
    raised = []  # (site, k, exc, tags)
    exc_tags = {}

    def tags_of(args):
        out = set()

        def walk(x, depth=0):
            if depth > 3:
                return
            if isinstance(x, tuple) and len(x) == 2 and x[0] == "v":
                out.add(x[1])
            elif isinstance(x, (list, tuple)):
                for y in x:
                    walk(y, depth + 1)
            elif isinstance(x, BaseException):
                out.update(exc_tags.get(id(x), ()))  # an exception injected earlier into this future's processing
                for y in x.args:
                    walk(y, depth + 1)
            elif hasattr(x, "result") and not callable(getattr(x, "result")):
                walk(x.result, depth + 1)  # PollDescriptor
            elif isinstance(x, Future) and x.done() and not x.cancelled():
                if x.exception() is not None:
                    walk(x.exception(), depth + 1)
                else:
                    walk(x.result(), depth + 1)
        walk(args)
        return out

    def site(name, fn, maxk=2):
        def wrapped(*a, **kw):
            k = counts.get(name, 0)
            counts[name] = k + 1
            if p.get("points_in_user_code") and name in ("should_retry", "sleep_time"):
                sched.point()  # user code takes time: other threads may run meanwhile
            if p.get("cancel_during_policy") and name == "sleep_time" and k == 0:
                # the policy takes its time and a cancel() arrives meanwhile (a blocking hand-over,
                # so it costs no preemption): the first cancel lands between should_retry and _retry
                in_policy.set()
                cancelled_once.wait(50)
            if armed[0] and budget[0] > 0 and k < maxk:
                if ctx.choice(2, "fault@%s.%d" % (name, k)):
                    budget[0] -= 1
                    exc = Injected("%s#%d" % (name, k))
                    tg = tags_of(a)
                    if name == "callable":
                        tg = set(tg) | {0}
                    exc_tags[id(exc)] = set(tg)
                    raised.append((name, k, exc, tg))
                    ev.add("fault", site=name, k=k, tags=sorted(tg))
                    raise exc
            return fn(*a, **kw)
        return wrapped

    class Pol(RetryPolicy):
        def __init__(self):
            self.should_retry = site("should_retry", self._sr)
            self.sleep_time = site("sleep_time", lambda attempt, future: 0.5)

        def _sr(self, attempt, future):
            return attempt < 2 and isinstance(future.exception(), Boom)

    def poll_fn(ds):
        for d in ds:
            d.yield_result(d.result)

    ex = me
    chain = []
    for ln in layers:
        if ln == "map":
            ex = Executors.with_map(ex, site("map_fn", lambda v: v), error_fn=site("error_fn", lambda e: ("v", e.args[0][1]) if e.args and isinstance(e.args[0], tuple) else ("v", min(exc_tags.get(id(e)) or [-1]))))
        elif ln == "flat_map":
            ex = Executors.with_flat_map(ex, site("flat_fn", lambda v: f_return(v)))
        elif ln == "retry":
            ex = Executors.with_retry(ex, retry_policy=Pol())
        elif ln == "poll":
            ex = Executors.with_poll(ex, site("poll_fn", poll_fn), site("cancel_fn", lambda r: True), default_interval=2.0)
        elif ln == "throttle":
            cnt = site("count", lambda: 1)
            first = [True]

            def count():
                if first[0]:
                    first[0] = False
                    return 1  # the constructor's own call establishes the value in force
                return cnt()
            ex = Executors.with_throttle(ex, count)
        elif ln == "timeout":
            ex = Executors.with_timeout(ex, 1000)
        elif ln == "cancel_on_shutdown":
            ex = Executors.with_cancel_on_shutdown(ex)
        chain.append(ex)

    fails_first = bool(ctx.choice(2, "callable-fails-first")) if ("retry" in layers or "map" in layers) else False
    invs = {}

    def mk_callable(i):
        def fn():
            k = invs.get(i, 0)
            invs[i] = k + 1
            if fails_first and i == 0 and k == 0:
                raise Boom(("v", i))
            return ("v", i)
        return site("callable", fn) if i == 0 else fn

    stop = [False]

    def worker():
        idx = 0
        while True:
            if idx >= len(me.submitted):
                if stop[0]:
                    return
                me.wake.wait()
                me.wake.clear()
                continue
            d = me.submitted[idx]
            idx += 1
            sched.point()
            me.run(d)

    w = spawn("worker", worker)
    futs = {}
    api_errors = []

    def guarded(what, fn, *a):
        try:
            return fn(*a)
        except Exception as x:  # noqa
            api_errors.append((what, x))
            return None

    futs[0] = guarded("submit", ex.submit, mk_callable(0))
    if futs[0] is not None:
        guarded("add_done_callback", futs[0].add_done_callback, site("callback", lambda f: None))
    cres = []
    if do_cancel and futs[0] is not None:
        def canceller():
            for ci in range(int(do_cancel)):
                if p.get("cancel_during_policy") and ci == 0:
                    in_policy.wait(50)
                else:
                    sched.point()
                try:
                    cres.append(futs[0].cancel())
                    if ci == 0:
                        cancelled_once.set()
                except Exception as x:  # noqa
                    api_errors.append(("cancel", x))
        c = spawn("canceller", canceller)
    futs[1] = guarded("submit", ex.submit, mk_callable(1)) if not p.get("single") else None
    for i in (0, 1):
        if futs[i] is not None:
            wait_done(futs[i], sched.now() + 100)
    if do_cancel and futs[0] is not None:
        c.join(BIG)
    # clean probe: the executor must still serve new work
    armed[0] = False
    probe = guarded("submit", ex.submit, lambda: ("v", 99))
    if probe is not None:
        wait_done(probe, sched.now() + 100)
        ctx.check("probe-completes", outcome(probe) == ("value", ("v", 99)), "after faults %s: probe outcome %r" % (
            [(r[0], r[1]) for r in raised], outcome(probe)))
    else:
        ctx.check("probe-accepted", False, "probe submit raised %r after faults %s" % (api_errors[-1], [(r[0], r[1]) for r in raised]))
    for what, x in api_errors:
        if what == "submit" and isinstance(x, Injected) and "count" in str(x):
            # blocking-mode count evaluation is not used here; a count fault must not escape submit()
            ctx.check("no-exception-from-api", False, "%s raised %r" % (what, x))
        else:
            ctx.check("no-exception-from-api", False, "%s raised %r" % (what, x))
    OUTCOME_SITES = ("callable", "map_fn", "flat_fn", "error_fn", "poll_fn")
    for i in (0, 1):
        f = futs[i]
        if f is None:
            continue
        o = outcome(f)
        if i == 0 and cres and any(c_ is True for c_ in cres):
            ctx.check("cancelled-stays-cancelled", o == ("cancelled",), o)
            continue
        if not ctx.check("future-finishes", o[0] != "pending", "future %d pending after faults %s" % (i, [(r[0], r[1]) for r in raised])):
            continue
        mine = [r for r in raised if r[0] in OUTCOME_SITES and (i in r[3] or (r[0] == "callable" and i == 0))]
        if mine:
            ctx.reach("fault-attributed")
            # the future fails with one of the exceptions injected into its own processing
            # (an error_fn may also have turned an earlier failure into a value)
            ok = (o[0] == "error" and any(o[1] is r[2] for r in mine)) or (o[0] == "value" and o[1] == ("v", i)) or \
                 (o[0] == "error" and isinstance(o[1], Boom)) or \
                 ("map" in layers and o == ("value", ("v", -1)))  # error_fn turned the injected failure into a value
            ctx.check("own-fault-own-outcome", ok, "future %d: %r after own faults %s" % (i, o, [(r[0], r[1]) for r in mine]))
        else:
            exp_ok = o == ("value", ("v", i))
            if i == 0 and fails_first and "retry" not in layers and "map" not in layers:
                exp_ok = o[0] == "error"
            if i == 0 and fails_first and "retry" in layers:
                # retried once unless the policy was made to fail, in which case the callable's own failure stands
                pol_fault = any(r[0] in ("should_retry", "sleep_time") for r in raised)
                exp_ok = exp_ok or (pol_fault and o[0] == "error" and isinstance(o[1], Boom)) or \
                    ("map" in layers and o[0] == "value")
            if i == 0 and cres and not any(c_ is True for c_ in cres):
                exp_ok = exp_ok or o[0] in ("value", "error")
            ctx.check("unrelated-future-unaffected", exp_ok, "future %d: %r although no fault belonged to it (faults %s, fails_first=%s)" % (
                i, o, [(r[0], r[1], sorted(r[3])) for r in raised], fails_first))
            ctx.reach("unaffected-checked")
    if raised:
        ctx.reach("fault-injected")
    stop[0] = True
    me.wake.set()
    w.join(BIG)
    # worker threads of every layer are still alive before shutdown
    for t in ctx.sched.threads:
        if any(t.name.startswith(pfx) for pfx in ("RetryExecutor-", "PollExecutor-", "ThrottleExecutor-", "TimeoutExecutor-")):
            ctx.check("worker-thread-alive", not t.finished, "%s exited after faults %s" % (t.name, [(r[0], r[1]) for r in raised]))
    for e_ in reversed(chain):
        try:
            e_.shutdown(wait=True)
        except Exception as x:  # noqa
            ctx.check("shutdown-raises-nothing", False, repr(x))
    return True


class Refused(RuntimeError):
    pass


def scn_refused(ctx):
    """The executor below refuses a submission - its submit() raises, as any executor's does once its
    owner has shut it down.  For layers that hand work over from their own worker thread (retry,
    throttle) that exception arrives inside the library's thread: it belongs to that one future, the
    thread survives and later submissions are served."""
    from more_executors import Executors
    from vf.harness.entries import finish

    p = ctx.params
    layer = p["layer"]
    ev = ctx.ev
    me = ManualExecutor(ev)
    k = ctx.choice(p.get("calls", 3), "refuse-call")  # which call of delegate.submit is refused
    cnt = [0]
    refusals = []
    refusing = threading.Event()
    orig = me.submit

    def submit_hook(fn, *a, **kw):
        n = cnt[0]
        cnt[0] += 1
        if n == k:
            e = Refused("cannot schedule new futures after shutdown")
            refusals.append(e)
            refusing.set()
            ev.add("delegate_refuses", call=n)
            raise e
        return orig(fn, *a, **kw)

    me.submit = submit_hook
    if layer == "retry":
        ex = Executors.with_retry(me, max_attempts=2, sleep=0.5)
    elif layer == "throttle":
        ex = Executors.with_throttle(me, 1)
    else:
        ex = Executors.with_throttle(Executors.with_retry(me, max_attempts=2, sleep=0.5), 2)
    stop = [False]

    def worker():
        # plays the delegate's workers: the first attempt of the first callable fails, the rest succeed
        first = [True]
        while not stop[0]:
            pend = [d for d in me.submitted if not d.done()]
            if not pend:
                me.wake.wait(1.0)
                me.wake.clear()
                continue
            d = pend[0]
            sched.point()
            if first[0] and layer != "throttle":
                first[0] = False
                finish(d, "error", exc=Boom("first attempt fails"))
            else:
                me.run(d)

    w = spawn("worker", worker)
    futs = [ex.submit(lambda i=i: ("v", i)) for i in range(2)]
    if p.get("cancel"):
        # a cancel() racing with the refusal: it returns a bool, whatever the moment
        def canceller():
            refusing.wait(50)  # (woken at the moment the delegate refuses: the overlap costs one preemption)
            try:
                r = futs[0].cancel()
                ctx.check("cancel-raises-nothing", isinstance(r, bool), "cancel() returned %r" % (r,))
            except Exception as x:  # noqa
                ctx.check("cancel-raises-nothing", False, "cancel() racing with the delegate's refusal raised %r" % (x,))
        cn = spawn("canceller", canceller)
        cn.join(BIG)
    for f in futs:
        wait_done(f, sched.now() + 50)
    outs = [outcome(f) for f in futs]
    for i, o in enumerate(outs):
        ctx.check("future-finishes", o[0] != "pending", "submission %d is pending for ever after the delegate refused a submission (call %d)" % (i, k))
    hit = []
    if refusals:
        ctx.reach("delegate-refused")
        hit = [o for o in outs if o[0] == "error" and o[1] is refusals[0]]
        ctx.check("refusal-belongs-to-one-future", len(hit) <= 1, "the delegate's exception ended %d futures" % len(hit))
    # a clean probe: the executor still serves submissions
    probe = ex.submit(lambda: "probe")
    wait_done(probe, sched.now() + 50)
    po = outcome(probe)
    own = bool(refusals) and po[0] == "error" and po[1] is refusals[0] and not hit  # the refused call was the probe's own
    ctx.check("probe-completes", po == ("value", "probe") or own, "after the refusal: probe outcome %r" % (po,))
    stop[0] = True
    me.wake.set()
    w.join(BIG)
    ex.shutdown(wait=True)
    return True


SINGLES = [["map"], ["flat_map"], ["retry"], ["poll"], ["throttle"], ["timeout"]]
PAIRS = [["retry", "map"], ["map", "retry"], ["poll", "retry"], ["retry", "poll"], ["throttle", "retry"], ["retry", "throttle"],
         ["map", "poll"], ["flat_map", "retry"], ["timeout", "retry"], ["throttle", "map"]]
ASSUMPTIONS = ["fault = the k-th call (k<2) of a user-supplied function raises Injected; sites: submitted callable, map fn, error fn, flat_map fn, poll fn, cancel fn, should_retry, sleep_time, throttle count callable (after construction), done-callback",
               "custom retry policy retries once on Boom with sleep 0.5",
               "refused: the executor below raises from submit() on its k-th call (k<3), as a shut-down executor does; retry and throttle layers call it from their own worker thread"]
BOUNDS_TEXT = {"quick": "6 single layers (1-2 faults) + 10 two-layer stacks (1 fault), optional concurrent cancel; P<=1 / P=0",
               "thorough": "2 faults everywhere, P<=2 / P<=1"}
MUST_REACH = {"*": ["fault-injected", "fault-attributed", "unaffected-checked", "delegate-refused"]}
BUDGET = {"quick": 150.0, "thorough": 600.0}


def plan(tier, seed):
    q = tier == "quick"
    items = []
    for s in SINGLES:
        items.append(dict(scenario="faults", params=dict(layers=s, nfaults=1 if q else 2, cancel=False), bounds=dict(P=1 if q else 2)))
        items.append(dict(scenario="faults", params=dict(layers=s, nfaults=1, cancel=True), bounds=dict(P=0 if q else 1)))
    for pr in PAIRS:
        items.append(dict(scenario="faults", params=dict(layers=pr, nfaults=1 if q else 2, cancel=False), bounds=dict(P=0 if q else 1)))
    # two cancel() calls racing with the retry decision and the submit thread's hand-over (no injected fault)
    items.append(dict(scenario="faults", params=dict(layers=["retry"], nfaults=0, cancel=2, single=True, cancel_during_policy=True), bounds=dict(P=1 if q else 2)))
    if not q:
        items.append(dict(scenario="faults", params=dict(layers=["retry"], nfaults=0, cancel=2, single=True, points_in_user_code=True), bounds=dict(P=2)))
    items.append(dict(scenario="faults", params=dict(layers=["poll"], nfaults=1, cancel=2, single=True), bounds=dict(P=1 if q else 2)))
    for ly in ("retry", "throttle", "both"):
        # delegate.submit() raising inside the layer's own worker thread
        items.append(dict(scenario="refused", params=dict(layer=ly, calls=3), bounds=dict(P=0 if q else 1)))
        if ly != "both":
            items.append(dict(scenario="refused", params=dict(layer=ly, calls=2, cancel=True), bounds=dict(P=1 if q else 2, post_release=True, max_paths=3000 if q else 60000)))
    return items
