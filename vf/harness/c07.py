"""C07 — throttle: never more than count in flight, FIFO hand-over, no idle capacity, blocking mode."""
from __future__ import annotations

import threading

from vf.harness.common import *  # noqa
from vf.engine import sched

PROPERTY = "C07"
K = 48


def scn_throttle(ctx):
    from more_executors.throttle import ThrottleExecutor

    p = ctx.params
    nsub = p.get("nsub", 3)
    nthreads = p.get("submitters", 1)
    block = p.get("block", False)
    ckind = p.get("count", "static")  # static | none | dynamic
    do_cancel = p.get("cancel", False)
    eps = ctx.eps
    ev = ctx.ev
    me = ManualExecutor(ev)
    wake = threading.Event()
    orig_submit = me.submit

    nref = [0]

    def submit_hook(fn, *a, **kw):
        # with params refuse=k: the delegate may refuse (raise from submit()) up to k hand-overs; a refused
        # hand-over ends that future with the error and must not keep a slot of the limit
        if p.get("refuse") and nref[0] < p["refuse"] and ctx.choice(2, "refuse%d" % len(me.submitted)):
            nref[0] += 1
            ev.add("delegate_refuse", fn=fn)
            ctx.reach("delegate-refused")
            raise RuntimeError("delegate refuses")
        f = orig_submit(fn, *a, **kw)
        f.add_done_callback(lambda _f: ev.add("delegate_done", tag=_f.tag))
        wake.set()
        return f

    me.submit = submit_hook
    in_force = [None]
    if ckind == "static":
        # (enumerated, not a symbolic int: the library does arithmetic on the count, and an int subclass's raw
        # payload is read directly by C-level consumers such as slices - no hook to make that symbolic)
        lo_ = 1 if block else 0
        cnt = lo_ + ctx.choice(p.get("cmax", 3) - lo_ + 1, "count")
        count = cnt
    elif ckind == "none":
        count = None
    else:
        ncall = [0]
        hk = [0]
        lastv = [max(p["dyn_menu"])] if p.get("dyn_menu") else [None]

        def count():
            k = ncall[0]
            ncall[0] += 1
            # the constructor's first call establishes the first value in force: it does not raise
            if p.get("dyn_menu"):
                # a small menu of limits (e.g. 1 then 0: the limit drops below the number in flight); only
                # the hand-over thread's calls are scripted, other callers see the value in force
                menu = p["dyn_menu"]
                if threading.current_thread().name.startswith("ThrottleExecutor"):
                    kk = hk[0]
                    hk[0] += 1
                    v = menu[ctx.choice(len(menu), "count-h%d" % kk)] if kk < p.get("dyn_calls", 6) else max(menu)
                    lastv[0] = v
                else:
                    v = lastv[0]
                ev.add("count_ret", value=v)
                return v
            c = (ctx.choice(3 if k == 0 else 4, "count%d" % k)) if k < p.get("dyn_calls", 6) else 0
            # 0 -> 1, 1 -> 2, 2 -> None, 3 -> raise
            if c == 3:
                ev.add("count_raise")
                raise RuntimeError("count callable failed")
            v = (1, 2, None)[c]
            ev.add("count_ret", value=v)
            return v

    dur = None
    if p.get("dur") == "long":
        dur = ctx.real("dur", lo=1, hi=5)
    elif p.get("dur") == "verylong":
        dur = ctx.real("dur", lo=40, hi=50)  # longer than the executor's periodic re-check of a dynamic count
    errors = []
    try:
        ex = ThrottleExecutor(me, count, block=block)
    except Exception as e:  # noqa
        ctx.check("constructor-works", False, repr(e))
        return
    subs = [dict(i=i) for i in range(nsub)]
    groups = [[] for _ in range(nthreads)]
    for sp in subs:
        groups[sp["i"] % nthreads].append(sp)

    def submitter(g):
        for sp in g:
            def fn_(i=sp["i"]):
                # with params fails: the callable may raise (a failed callable frees its slot as well)
                if p.get("fails") and ctx.choice(2, "fails%d" % i):
                    raise RuntimeError("callable %d fails" % i)
                return i * 10
            sp["fn"] = fn_
            sp["t_call"] = sched.now()
            ev.add("submit_call", i=sp["i"])
            try:
                sp["f"] = ex.submit(sp["fn"])
            except Exception as e:  # noqa
                sp["exc"] = e
                ev.add("submit_raise", i=sp["i"], exc=repr(e))
                continue
            sp["t_ret"] = sched.now()
            ev.add("submit_ret", i=sp["i"])

    stop = [False]

    def completer():
        while True:
            pend = [f for f in me.submitted if not f.done()]
            if not pend:
                if stop[0]:
                    return
                wake.wait()
                wake.clear()
                continue
            f = pend[ctx.choice(len(pend), "complete-which")] if len(pend) > 1 else pend[0]
            if dur is not None:
                # a long-running callable: it ends `dur` after it was handed over
                t_h = [e["t"] for e in ev.items if e["k"] == "delegate_submit" and e["tag"] == f.tag][0]
                sched.vsleep_until(t_h + dur)
            else:
                sched.point()
            me.run(f)

    def canceller():
        sched.point()
        sp = subs[ctx.choice(nsub, "cancel-which")] if p.get("cancel_any") else subs[-1]
        f = sp.get("f")
        if f is not None:
            r = f.cancel()
            ev.add("user_cancel", i=sp["i"], result=r)

    ths = [spawn("sub%d" % gi, submitter, g) for gi, g in enumerate(groups)]
    comp = spawn("completer", completer)
    if do_cancel:
        ths.append(spawn("canceller", canceller))
    # wait for submitters (a blocked submit is released at the latest by the library's 30 s timer)
    t_begin = sched.now()
    for t in ths:
        t.join(200)
    stuck = [t.name for t in ths if t.is_alive()]
    ctx.check("submit-returns", not stuck, "still blocked in submit(): %s" % stuck)
    for sp in subs:
        if "exc" in sp:
            ctx.check("submit-raises-nothing", False, "submit(%d) raised %r (count=%s block=%s)" % (sp["i"], sp["exc"], ckind, block))
    if stuck or any("exc" in sp for sp in subs):
        return
    limit0 = ckind == "static" and bool(cnt == 0)
    for sp in subs:
        if limit0:
            break
        wait_done(sp["f"], sched.now() + 200)
    stop[0] = True
    wake.set()
    comp.join(BIG)
    # ------------------------------------------------------------------ oracle
    tag2i = {}
    for e in ev.items:
        if e["k"] == "delegate_submit":
            for sp in subs:
                if e["fn"] is sp["fn"]:
                    tag2i[e["tag"]] = sp["i"]
    inflight = 0
    queue = []  # submission indices accepted (submit returned) and not yet handed over / cancelled
    handed = []
    eligible_since = None
    last_vals = []  # count values returned since the hand-over thread's most recent call
    in_force = None
    qlen_block = 0  # queue length as the blocking submit sees it
    below_since = {}
    refused = set()
    for e in ev.items:
        k = e["k"]
        if k == "count_ret":
            in_force = e["value"]
            if e["th"].startswith("ThrottleExecutor"):
                last_vals = [e["value"]]
            else:
                last_vals.append(e["value"])
        elif k == "count_raise":
            if e["th"].startswith("ThrottleExecutor"):
                last_vals = [in_force]
            else:
                last_vals.append(in_force)
        elif k == "submit_ret":
            if e["i"] not in handed:  # the hand-over may overtake the return of submit()
                queue.append(e["i"])
        elif k == "user_cancel" and e["result"]:
            if e["i"] in queue:
                queue.remove(e["i"])
        elif k == "delegate_submit":
            i = tag2i.get(e["tag"])
            inflight += 1
            handed.append(i)
            # (a) limit
            if ckind == "static":
                ctx.check("limit", inflight <= cnt, "%d in flight after hand-over of %s" % (inflight, i))
            elif ckind == "dynamic":
                allowed = None if (None in last_vals or not last_vals) else max(last_vals)
                if not last_vals:
                    allowed = "unknown"
                if allowed != "unknown":
                    ctx.check("limit", allowed is None or inflight <= allowed,
                              "%d in flight after hand-over of %s, count values in force %s" % (inflight, i, last_vals))
            # (b) FIFO among accepted submissions
            if i in queue:
                ctx.check("fifo", queue[0] == i, "handed over %s while %s was submitted earlier (queue %s)" % (i, queue[0], queue))
                queue.remove(i)
            # (c) no idle capacity
            if ckind in ("static", "none") and eligible_since is not None and not do_cancel:
                ctx.check("handover-prompt", e["t"] <= eligible_since + K * eps,
                          "submission %s handed over at %r although capacity was free since %r" % (i, e["t"], eligible_since))
                ctx.reach("handover-checked")
            eligible_since = None
        elif k == "delegate_done":
            inflight -= 1
        elif k == "delegate_refuse":
            for sp in subs:
                if e["fn"] is sp["fn"]:
                    refused.add(sp["i"])
                    if sp["i"] in queue:
                        queue.remove(sp["i"])
                    else:
                        handed.append(sp["i"])  # refused before submit() returned: never enters the queue
            eligible_since = None
        # recompute eligibility after every event
        if k in ("submit_ret", "delegate_done", "delegate_submit", "user_cancel", "delegate_refuse"):
            if queue:
                if ckind == "none":
                    free = True
                elif ckind == "static":
                    free = bool(inflight < cnt)
                else:
                    free = False
                if free:
                    if eligible_since is None:
                        eligible_since = e["t"]
                else:
                    eligible_since = None
            else:
                eligible_since = None
    if not limit0:
        for sp in subs:
            f = sp["f"]
            if f.cancelled():
                continue
            ctx.check("future-done", f.done(), "submission %d not done" % sp["i"])
            if f.done():
                o_ = outcome(f)
                if sp["i"] in refused:
                    ctx.check("refused-outcome", o_[0] == "error" and "delegate refuses" in str(o_[1]), "submission %d: %r" % (sp["i"], o_))
                    continue
                ok_ = o_ == ("value", sp["i"] * 10) or (p.get("fails") and o_[0] == "error" and isinstance(o_[1], RuntimeError) and ("callable %d fails" % sp["i"]) in str(o_[1]))
                ctx.check("own-outcome", ok_, "submission %d: %r" % (sp["i"], o_))
    else:
        ctx.check("count0-nothing-handed-over", not handed, handed)
    # (d) blocking mode: submit() blocks only while the queue already holds count entries
    if block and ckind == "static":
        q = 0
        below = sched.SReal(0) if hasattr(sched, "SReal") else 0
        tl = []  # (time, queue length)
        q = 0
        for e in ev.items:
            if e["k"] == "submit_ret":
                q += 1
            elif e["k"] == "delegate_submit":
                q -= 1
            elif e["k"] == "user_cancel" and e["result"]:
                q -= 1
            else:
                continue
            tl.append((e["seq"], e["t"], q))
        for sp in subs:
            call = [e for e in ev.items if e["k"] == "submit_call" and e["i"] == sp["i"]][0]
            ret = [e for e in ev.items if e["k"] == "submit_ret" and e["i"] == sp["i"]][0]
            # earliest instant >= call at which queue length < count held
            qv = 0
            t_free = None
            for (sq, t, qq) in tl:
                if sq < call["seq"]:
                    qv = qq
            if bool(qv < cnt):
                t_free = call["t"]
            else:
                for (sq, t, qq) in tl:
                    if sq > call["seq"] and sq < ret["seq"] and bool(qq < cnt):
                        t_free = t
                        break
            if t_free is not None:
                ctx.check("blocking-submit-prompt", ret["t"] <= t_free + K * eps,
                          "submit(%d) returned at %r, queue had room since %r" % (sp["i"], ret["t"], t_free))
                ctx.reach("blocking-checked")
    ex.shutdown(wait=True)
    return True


ASSUMPTIONS = [
    "limit for a dynamic count is read at admission time: in-flight <= the largest value returned to the executor since (and including) the hand-over thread's own most recent call; a raising call keeps the value in force",
    "blocking mode is exercised with count >= 1 (count=0 blocks forever by the statement itself)",
]
BOUNDS_TEXT = {
    "quick": "3 submissions, 1-2 submitter threads, static count symbolic in [0,3] | None | dynamic script (1,2,None,raise) of <=6 calls; block in {False,True}; P<=1",
    "thorough": "4 submissions, P<=2, cancel of a queued future",
}
MUST_REACH = {"*": ["handover-checked", "blocking-checked"]}
BUDGET = {"quick": 150.0, "thorough": 600.0}


def plan(tier, seed):
    items = []
    T = "throttle"
    if tier == "quick":
        items.append(dict(scenario=T, params=dict(nsub=2, submitters=1, count="static", block=False, cmax=2), bounds=dict(P=1)))
        items.append(dict(scenario=T, params=dict(nsub=3, submitters=2, count="static", block=False, cmax=2), bounds=dict(P=0)))
        items.append(dict(scenario=T, params=dict(nsub=2, submitters=1, count="none", block=False), bounds=dict(P=1)))
        items.append(dict(scenario=T, params=dict(nsub=2, submitters=1, count="none", block=True), bounds=dict(P=1)))
        items.append(dict(scenario=T, params=dict(nsub=2, submitters=1, count="static", block=True, dur="long", cmax=1), bounds=dict(P=1)))
        items.append(dict(scenario=T, params=dict(nsub=3, submitters=1, count="static", block=False, dur="long", fails=True), bounds=dict(P=0)))
        items.append(dict(scenario=T, params=dict(nsub=2, submitters=1, count="dynamic", block=False, dyn_calls=3), bounds=dict(P=0)))
        items.append(dict(scenario=T, params=dict(nsub=3, submitters=1, count="dynamic", block=False, dyn_calls=4, dyn_menu=[1, 0], dur="verylong"), bounds=dict(P=0)))
        items.append(dict(scenario=T, params=dict(nsub=3, submitters=1, count="static", block=False, cancel=True, cmax=2), bounds=dict(P=0)))
        items.append(dict(scenario=T, params=dict(nsub=3, submitters=1, count="static", block=False, cmax=2, refuse=1), bounds=dict(P=0)))
        items.append(dict(scenario=T, params=dict(nsub=2, submitters=1, count="static", block=True, cmax=1, refuse=1), bounds=dict(P=0)))
        items.append(dict(scenario=T, params=dict(nsub=4, submitters=1, count="static", block=False, cancel=True, cancel_any=True, cmax=1, dur="long"), bounds=dict(P=0)))
    else:
        items.append(dict(scenario=T, params=dict(nsub=3, submitters=1, count="static", block=False), bounds=dict(P=1)))
        items.append(dict(scenario=T, params=dict(nsub=4, submitters=2, count="static", block=False), bounds=dict(P=0)))
        items.append(dict(scenario=T, params=dict(nsub=2, submitters=1, count="static", block=False), bounds=dict(P=2)))
        items.append(dict(scenario=T, params=dict(nsub=3, submitters=1, count="static", block=True, dur="long"), bounds=dict(P=1)))
        items.append(dict(scenario=T, params=dict(nsub=3, submitters=2, count="static", block=True), bounds=dict(P=1)))
        items.append(dict(scenario=T, params=dict(nsub=3, submitters=1, count="dynamic", block=False, dyn_calls=6), bounds=dict(P=0)))
        items.append(dict(scenario=T, params=dict(nsub=2, submitters=1, count="dynamic", block=True, dyn_calls=5), bounds=dict(P=1)))
        items.append(dict(scenario=T, params=dict(nsub=3, submitters=1, count="static", block=False, cancel=True), bounds=dict(P=1)))
        items.append(dict(scenario=T, params=dict(nsub=2, submitters=1, count="none", block=True), bounds=dict(P=2)))
        items.append(dict(scenario=T, params=dict(nsub=3, submitters=1, count="static", block=False, refuse=2), bounds=dict(P=1)))
        items.append(dict(scenario=T, params=dict(nsub=3, submitters=2, count="static", block=True, refuse=1), bounds=dict(P=1)))
    return items
