"""C14 — see vf/contracts/c14_bool.py (engine X) and scn_* below (engine S)."""
from __future__ import annotations

from vf.harness.common import *  # noqa
from vf.harness.entries import finish, Boom
from vf.engine import sched

PROPERTY = "C14"


def contracts(tier):
    return [dict(file="c14_bool.py", timeout=90 if tier == "quick" else 400)]


def _completers(ctx, ins, kinds, vals, excs, split):
    """Two completer threads finish the inputs (thread A those with index in split, B the rest),
    each logging the real-time interval of its completing call."""
    ev = ctx.ev

    def comp(idxs):
        for i in idxs:
            if kinds[i] == 3:
                continue
            sched.point()
            ev.add("fin_begin", i=i)
            k = ("value", "error", "cancel")[kinds[i]]
            finish(ins[i], k, vals[i], excs[i])
            ev.add("fin_end", i=i)

    a = [i for i in range(len(ins)) if i in split]
    b = [i for i in range(len(ins)) if i not in split]
    return [spawn("compA", comp, a), spawn("compB", comp, b)]


def _linearizations(ctx, n, kinds):
    """All total orders of the finished inputs consistent with real-time precedence."""
    import itertools
    ev = ctx.ev
    beg = dict((e["i"], e["seq"]) for e in ev.of("fin_begin"))
    end = dict((e["i"], e["seq"]) for e in ev.of("fin_end"))
    fin = [i for i in range(n) if i in end]
    for perm in itertools.permutations(fin):
        ok = True
        for x in range(len(perm)):
            for y in range(x + 1, len(perm)):
                # perm[y] must not strictly precede perm[x] in real time
                if end[perm[y]] < beg[perm[x]]:
                    ok = False
        if ok:
            yield list(perm)


def scn_fold(ctx):
    """f_or / f_and over n RecFutures completed by two threads; symbolic integer values
    (truthiness decided by the solver), exception, cancelled or never; optional cancel of the
    output.  Oracle: some linearization of the completions, consistent with their real-time
    order, whose or/and fold equals the output."""
    from more_executors.futures import f_or, f_and

    p = ctx.params
    op = p["op"]
    n = p.get("n", 3)
    ev = ctx.ev
    ins = [RecFuture(ev, "in%d" % i) for i in range(n)]
    kinds = [ctx.choice(4, "kind%d" % i) for i in range(n)]  # 0 value 1 error 2 cancelled 3 never
    vals = [ctx.int("v%d" % i, -1, 1) for i in range(n)]
    excs = [Boom("e%d" % i) for i in range(n)]
    args = list(ins)
    if p.get("dup"):
        args.append(ins[0])  # a duplicate input: the fold runs over the distinct completions
    out = (f_or if op == "or" else f_and)(*args)
    ths = _completers(ctx, ins, kinds, vals, excs, p.get("split", [0]))
    cres = []
    if p.get("cancel"):
        def canc():
            sched.point()
            ev.add("out_cancel_begin")
            cres.append(out.cancel())
            ev.add("out_cancel_end")
        ths.append(spawn("canceller", canc))
    for t in ths:
        t.join(BIG)
    got = outcome(out)
    truth = {}
    for i in range(n):
        if kinds[i] == 0:
            truth[i] = bool(vals[i] != 0)
    nfin = sum(1 for k in kinds if k != 3)

    def fold(order):
        seen = 0
        for i in order:
            seen += 1
            k = kinds[i]
            o = ("value", i) if k == 0 else (("error", i) if k == 1 else ("cancelled",))
            t = truth.get(i, False)
            if (op == "or" and t) or (op == "and" and not t):
                return o
            if seen == n:
                return o
        return ("pending",)

    if cres and cres[0] and got == ("cancelled",):
        ctx.reach("output-cancelled")
        for i in range(n):
            if not (ins[i].done() and not ins[i].cancelled()):
                ctx.check("output-cancel-reaches-pending-inputs", len(ins[i].cancel_calls) >= 1, "input %d got no cancel()" % i)
        return True
    ok = False
    exps = []
    for order in _linearizations(ctx, n, kinds):
        e = fold(order)
        exps.append((order, e))
        if e[0] == got[0]:
            if e[0] == "value":
                ok = bool(eq_term(got[1], vals[e[1]]))
            elif e[0] == "error":
                ok = got[1] is excs[e[1]]
            else:
                ok = True
        if ok:
            break
    ctx.check("fold-over-a-linearization", ok, "%s: output %r matches no real-time-consistent completion order %r (kinds %s, truth %s)" % (op, got, exps, kinds, truth))
    ctx.reach("fold-checked")
    if got[0] != "pending":
        for i in range(n):
            if kinds[i] == 3:
                ctx.check("decided-output-cancels-pending-inputs", len(ins[i].cancel_calls) >= 1, "input %d still pending and never cancelled" % i)
                ctx.reach("pending-cancel-checked")
    return True


ASSUMPTIONS = ["X: up to 3 inputs, all completion orders (symbolic permutation), symbolic int/str values; S: 3 inputs, values symbolic in [-1,1], two completer threads, optional output cancel"]
BOUNDS_TEXT = {"quick": "X: 9 contracts (90 s each); S: n=3, P<=1", "thorough": "X: 400 s; S: P<=2"}
MUST_REACH = {"*": ["fold-checked", "pending-cancel-checked"]}
BUDGET = {"quick": 120.0, "thorough": 600.0}


def plan(tier, seed):
    P = 1 if tier == "quick" else 3
    items = []
    for op in ("or", "and"):
        items.append(dict(scenario="fold", params=dict(op=op, n=3, split=[0]), bounds=dict(P=P)))
        items.append(dict(scenario="fold", params=dict(op=op, n=2, split=[0], cancel=True), bounds=dict(P=P)))
        items.append(dict(scenario="fold", params=dict(op=op, n=2, split=[0], dup=True), bounds=dict(P=P)))
    return items
