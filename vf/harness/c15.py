"""C15 — see vf/contracts/c15_zip.py (engine X) and scn_* below (engine S)."""
from __future__ import annotations

from vf.harness.common import *  # noqa
from vf.harness.entries import finish, Boom
from vf.engine import sched

PROPERTY = "C15"


def contracts(tier):
    return [dict(file="c15_zip.py", timeout=120 if tier == "quick" else 400)]


def _completers(ctx, ins, kinds, vals, excs, split):
    """Two completer threads finish the inputs (thread A those with index in split, B the rest),
    each logging the real-time interval of its completing call."""
    ev = ctx.ev

    def comp(idxs):
        for i in idxs:
            if kinds[i] == 3:
                continue
            sched.point()
            ev.add("fin_begin", i=i)
            k = ("value", "error", "cancel")[kinds[i]]
            finish(ins[i], k, vals[i], excs[i])
            ev.add("fin_end", i=i)

    a = [i for i in range(len(ins)) if i in split]
    b = [i for i in range(len(ins)) if i not in split]
    return [spawn("compA", comp, a), spawn("compB", comp, b)]


def _linearizations(ctx, n, kinds):
    """All total orders of the finished inputs consistent with real-time precedence."""
    import itertools
    ev = ctx.ev
    beg = dict((e["i"], e["seq"]) for e in ev.of("fin_begin"))
    end = dict((e["i"], e["seq"]) for e in ev.of("fin_end"))
    fin = [i for i in range(n) if i in end]
    for perm in itertools.permutations(fin):
        ok = True
        for x in range(len(perm)):
            for y in range(x + 1, len(perm)):
                # perm[y] must not strictly precede perm[x] in real time
                if end[perm[y]] < beg[perm[x]]:
                    ok = False
        if ok:
            yield list(perm)


def scn_zip(ctx):
    """f_zip / f_sequence / f_traverse over 3 RecFutures completed by two threads; optional cancel
    of the output."""
    from more_executors.futures import f_zip, f_sequence, f_traverse

    p = ctx.params
    which = p["which"]
    n = 3
    ev = ctx.ev
    ins = [RecFuture(ev, "in%d" % i) for i in range(n)]
    kinds = [ctx.choice(3, "kind%d" % i) for i in range(n)]  # 0 value 1 error 2 cancelled
    vals = [ctx.int("v%d" % i) for i in range(n)]
    excs = [Boom("e%d" % i) for i in range(n)]
    out = f_zip(*ins) if which == "zip" else (f_sequence(ins) if which == "sequence" else f_traverse(lambda f: f, ins))
    ths = _completers(ctx, ins, kinds, vals, excs, p.get("split", [0, 2]))
    cres = []
    if p.get("cancel"):
        def canc():
            sched.point()
            cres.append(out.cancel())
        ths.append(spawn("canceller", canc))
    for t in ths:
        t.join(BIG)
    wait_done(out, sched.now() + 5)
    got = outcome(out)
    if cres and cres[0] and got == ("cancelled",):
        for i in range(n):
            if not (ins[i].done() and not ins[i].cancelled()):
                ctx.check("output-cancel-reaches-pending-inputs", len(ins[i].cancel_calls) >= 1, "input %d got no cancel()" % i)
        ctx.reach("output-cancelled")
        return True
    ctx.check("finishes", got[0] != "pending", got)
    if all(k == 0 for k in kinds):
        ok = got[0] == "value" and len(got[1]) == n and all(bool(eq_term(got[1][i], vals[i])) for i in range(n))
        ctx.check("positions", ok, "%r vs %r" % (got, vals))
        ctx.check("container-type", isinstance(got[1], tuple) if which == "zip" else type(got[1]) is list, type(got[1]).__name__)
        ctx.reach("positions-checked")
    else:
        # first observed failure wins: some real-time-consistent order puts the reported failure first among the failures
        ok = False
        for order in _linearizations(ctx, n, kinds):
            firstbad = [i for i in order if kinds[i] != 0][0]
            if kinds[firstbad] == 1 and got[0] == "error" and got[1] is excs[firstbad]:
                ok = True
            if kinds[firstbad] == 2 and got[0] == "cancelled":
                ok = True
            if ok:
                break
        ctx.check("first-failure-wins", ok, "output %r, kinds %s" % (got, kinds))
        ctx.reach("failure-checked")
    return True


ASSUMPTIONS = ["X: n symbolic in [0,22] with pre-resolved inputs (crosses the 20-element named-tuple boundary); 3 inputs with symbolic outcomes / order / duplicate; S: 3 inputs, two completer threads, optional output cancel; inputs beyond 22 are outside the claim"]
BOUNDS_TEXT = {"quick": "X: 15 contracts (120 s each); S: P<=1", "thorough": "X: 400 s; S: P<=2"}
MUST_REACH = {"*": ["positions-checked", "failure-checked"]}
BUDGET = {"quick": 120.0, "thorough": 600.0}


def plan(tier, seed):
    P = 1 if tier == "quick" else 3
    items = []
    for w in ("zip", "sequence", "traverse"):
        items.append(dict(scenario="zip", params=dict(which=w), bounds=dict(P=P)))
        items.append(dict(scenario="zip", params=dict(which=w, cancel=True), bounds=dict(P=max(0, P - 1))))
    return items
