"""Scenario vocabulary shared by the S harnesses (DESIGN §6).

Imported only inside worker processes, after sched.install().
"""
from __future__ import annotations

import threading
from concurrent.futures import Executor, Future

from vf.engine import sched
from vf.engine.sym import SReal, SInt, SBool, s_and, s_or, s_not, s_implies, eq_term  # noqa: F401

BIG = 10 ** 6  # "forever" for harness waits (virtual seconds)


from vf.engine.explore import Ev  # noqa: F401


class RecFuture(Future):
    """A delegate future that records every cancel() call and when it happened."""

    def __init__(self, ev, tag):
        Future.__init__(self)
        self.ev = ev
        self.tag = tag
        self.cancel_calls = []  # (time, result)
        self.refuse_cancels = 0  # the next n cancel() calls are refused (a delegate may not be cancellable yet)

    def cancel(self):
        sched.point()  # a user-supplied delegate's future: its cancel() is an interleaving point
        t = sched.now()
        if self.refuse_cancels > 0:
            self.refuse_cancels -= 1
            r = False
        else:
            r = Future.cancel(self)
        self.cancel_calls.append((t, r))
        self.ev.add("cancel_call", tag=self.tag, result=r)
        return r

    def __repr__(self):
        return "<RecFuture %s %s>" % (self.tag, self._state)


class FalsyRecFuture(RecFuture):
    """A delegate whose futures are container-like objects that happen to be falsy (len() == 0)."""

    def __len__(self):
        return 0


class ManualExecutor(Executor):
    """A user-supplied delegate: records submissions, never runs anything by itself.
    The scenario completes the returned RecFutures explicitly."""

    def __init__(self, ev, name="manual"):
        self.ev = ev
        self.name = name
        self.submitted = []  # (fn, args, kwargs, future)
        self.shutdowns = []
        self.wake = threading.Event()
        self.refuse = False
        self.future_class = RecFuture
        self.drain_on_wait = False

    def submit(self, fn, *args, **kwargs):
        sched.point()  # a user-supplied delegate: its submit()/shutdown() are interleaving points
        if self.refuse or self.shutdowns:
            raise RuntimeError("cannot schedule new futures after shutdown")
        f = self.future_class(self.ev, "%s#%d" % (self.name, len(self.submitted)))
        f.fn, f.args, f.kwargs = fn, args, kwargs
        self.submitted.append(f)
        self.ev.add("delegate_submit", tag=f.tag, fn=fn, args=args, kwargs=kwargs, fut=f)
        self.wake.set()
        return f

    def shutdown(self, wait=True, **kwargs):
        sched.point()
        self.shutdowns.append((wait, kwargs))
        self.ev.add("delegate_shutdown", wait=wait, kwargs=kwargs)
        if wait and self.drain_on_wait:
            # like a real executor: shutdown(wait=True) returns once everything still queued has run
            for f in list(self.submitted):
                if not f.done() and not f.running():
                    if self.run(f):
                        self.ev.add("delegate_ran_on_shutdown", tag=f.tag)

    # helpers for scenarios ---------------------------------------------------
    def run(self, f):
        """Play the worker for f: run its callable and resolve it."""
        if not f.set_running_or_notify_cancel():
            return False
        try:
            r = f.fn(*f.args, **f.kwargs)
        except Exception as e:  # noqa
            f.set_exception(e)
        else:
            f.set_result(r)
        return True


class RecordingExecutor(Executor):
    """Wraps a real executor, recording shutdown calls (for C11) and submits."""

    def __init__(self, inner, ev, name="rec"):
        self.inner = inner
        self.ev = ev
        self.name = name
        self.shutdowns = []
        self.submits = 0

    def submit(self, fn, *a, **kw):
        self.submits += 1
        self.ev.add("delegate_submit", tag=self.name, fn=fn, args=a, kwargs=kw)
        return self.inner.submit(fn, *a, **kw)

    def shutdown(self, wait=True, **kw):
        self.shutdowns.append((wait, kw))
        self.ev.add("delegate_shutdown", wait=wait, kwargs=kw, tag=self.name)
        return self.inner.shutdown(wait, **kw)


def spawn(name, fn, *args):
    """Start a client/actor thread of the scenario."""
    errors = []

    def body():
        try:
            fn(*args)
        except Exception as e:  # noqa - harness actors must not die silently
            errors.append(e)
            raise

    t = threading.Thread(name=name, target=body)
    t.errors = errors
    t.start()
    t._sim.is_client = True
    return t


def join_all(ts, timeout=None):
    for t in ts:
        t.join(timeout)


def wait_done(f, until):
    """Block (virtual time) until f is done or the clock reaches `until`.  Returns done()."""
    if f.done():
        return True
    ev = threading.Event()
    f.add_done_callback(lambda _f: ev.set())
    while not f.done():
        rem = until - sched.now()
        neg = rem <= 0
        if bool(neg):
            break
        if bool(rem > BIG):
            rem = BIG  # (a timed wait accepts nothing beyond threading.TIMEOUT_MAX: wait in pieces)
        ev.wait(rem)
    return f.done()


def outcome(f):
    """('cancelled',) | ('value', v) | ('error', exc) | ('pending',)"""
    if not f.done():
        return ("pending",)
    if f.cancelled():
        return ("cancelled",)
    e = f.exception()
    if e is not None:
        return ("error", e)
    return ("value", f.result())


class MyError(Exception):
    pass


class OtherError(Exception):
    pass
