"""Engine S: controlled scheduler + virtual clock under the *real* code.

Only three things are modelled here: the base lock (threading.Lock/_allocate_lock),
threading.Thread and time.monotonic/sleep.  Condition, Event, Semaphore, Queue, Future,
ThreadPoolExecutor ... are the real stdlib Python sources running on ShimLock.

install() must be called before concurrent.futures / more_executors are imported.
"""
from __future__ import annotations

import _thread
import gc
import os
import sys
import time as _time_mod
import traceback
from fractions import Fraction

from . import sym
from .sym import SReal, SBool

_real_allocate = _thread.allocate_lock
_real_monotonic = _time_mod.monotonic
_real_sleep = _time_mod.sleep
_get_ident = _thread.get_ident
_getframe = sys._getframe

IDLE, RUN, TEARDOWN = 0, 1, 2

CUR = None  # the active Scheduler (one execution at a time per process)

REPO = os.path.realpath(os.environ.get("VERIF_REPO", "/repo"))
_LIB_PREFIX = os.path.join(REPO, "more_executors") + os.sep
_THIS_DIR = os.path.dirname(os.path.abspath(__file__)) + os.sep

# file classes for preemption granularity
F_SHIM, F_LIB, F_ATOMIC, F_STDFUT, F_OTHER = range(5)
_file_class_cache = {}


def _file_class(fn):
    c = _file_class_cache.get(fn)
    if c is None:
        if fn.startswith(_THIS_DIR):
            c = F_SHIM
        elif fn.startswith(_LIB_PREFIX):
            c = F_LIB
        else:
            base = fn.replace("\\", "/")
            if base.endswith("/threading.py") or base.endswith("/queue.py"):
                c = F_ATOMIC
            elif base.endswith("concurrent/futures/_base.py") or base.endswith("concurrent/futures/thread.py"):
                c = F_STDFUT
            else:
                c = F_OTHER
        _file_class_cache[fn] = c
    return c


class Teardown(BaseException):
    pass


class _Token(object):
    """Marks a stdlib frame as 'already entered' (stored in frame.f_trace; never called
    unless a trace function is active, in which case it traces nothing)."""
    __slots__ = ()

    def __call__(self, frame, event, arg):
        return None


class DeadlockError(BaseException):
    def __init__(self, info):
        BaseException.__init__(self, info)
        self.info = info


class StepLimit(BaseException):
    pass


class SimThread(object):
    __slots__ = (
        "idx", "name", "baton", "pending", "finished", "started", "exc", "root_key",
        "ident", "timed_out", "deadline", "dead", "inject", "obj", "is_client", "steps",
        "blocked_site", "spin_key", "spin_epoch", "trash", "nev",
    )

    def __init__(self, idx, name):
        self.idx = idx
        self.name = name
        self.baton = _real_allocate()
        self.baton.acquire()
        self.dead = _real_allocate()
        self.pending = None
        self.finished = False
        self.started = False
        self.exc = None
        self.root_key = None
        self.ident = None
        self.timed_out = False
        self.deadline = None
        self.inject = None
        self.obj = None
        self.is_client = False
        self.steps = 0
        self.blocked_site = None
        self.spin_key = None
        self.spin_epoch = -1
        self.trash = []
        self.nev = 0


# ---------------------------------------------------------------------------
# the base lock
# ---------------------------------------------------------------------------

import weakref as _weakref

_GLOBAL_LOCKS = _weakref.WeakSet()   # ShimLocks created outside executions (module-level state)
_GLOBAL_RLOCKS = _weakref.WeakSet()


def reset_global_locks():
    """Module-level locks may be left held by threads killed at the end of the previous
    execution; every execution starts with all of them free."""
    for l in list(_GLOBAL_LOCKS):
        l.owner = None
    for r in list(_GLOBAL_RLOCKS):
        r._owner = None
        r._count = 0


_GLOBAL_UID = [0]


class ShimLock(object):
    __slots__ = ("owner", "uid", "__weakref__")

    def __init__(self):
        self.owner = None
        s = CUR
        if s is None or s.mode != RUN:
            _GLOBAL_LOCKS.add(self)
            _GLOBAL_UID[0] -= 1
            self.uid = _GLOBAL_UID[0]
        else:
            s.lock_seq += 1
            self.uid = s.lock_seq

    def acquire(self, blocking=True, timeout=-1):
        s = CUR
        if s is not None and s.mode == RUN:
            me = s.by_ident.get(_get_ident())
            if me is not None and not me.finished:
                return s.op_acquire(me, self, blocking, timeout)
        return self._acquire_passthrough(s, blocking)

    def _acquire_passthrough(self, s, blocking):
        me = _get_ident()
        if s is not None and s.mode == TEARDOWN:
            t = s.by_ident.get(me)
            if t is not None and not t.finished and t.idx != 0:
                # a simulated thread being unwound: never block, never continue
                raise Teardown()
        if self.owner is None:
            self.owner = me
            return True
        if not blocking:
            return False
        # single real thread outside executions / teardown: the owner is gone
        self.owner = me
        return True

    __enter__ = acquire

    def release(self):
        s = CUR
        if s is not None and s.mode == RUN:
            me = s.by_ident.get(_get_ident())
            if me is not None and not me.finished:
                return s.op_release(me, self)
        self.owner = None

    def __exit__(self, *a):
        self.release()

    def locked(self):
        return self.owner is not None

    def _at_fork_reinit(self):
        self.owner = None

    def __repr__(self):
        return "<ShimLock %s>" % ("locked" if self.owner is not None else "unlocked")


# ---------------------------------------------------------------------------
# threads
# ---------------------------------------------------------------------------

class ShimThread(object):
    """Replacement for threading.Thread (the subset the stdlib/library use)."""

    _counter = 0

    def __init__(self, group=None, target=None, name=None, args=(), kwargs=None, *, daemon=None):
        self._target = target
        self._args = args
        self._kwargs = kwargs or {}
        ShimThread._counter += 1
        self._seq = ShimThread._counter
        self.name = str(name) if name is not None else "Thread-%d" % self._seq
        self._daemon = bool(daemon)
        self._sim = None
        self._started = False
        self.ident = None
        self.native_id = None

    def __hash__(self):
        return self._seq

    def __eq__(self, o):
        return self is o

    @property
    def daemon(self):
        return self._daemon

    @daemon.setter
    def daemon(self, v):
        self._daemon = bool(v)

    def setDaemon(self, v):
        self._daemon = bool(v)

    def isDaemon(self):
        return self._daemon

    def getName(self):
        return self.name

    def run(self):
        try:
            if self._target is not None:
                self._target(*self._args, **self._kwargs)
        finally:
            del self._target, self._args, self._kwargs

    def start(self):
        s = CUR
        if s is None or s.mode != RUN:
            raise RuntimeError("ShimThread.start outside a controlled execution")
        if self._started:
            raise RuntimeError("threads can only be started once")
        self._started = True
        s.op_start(self)

    def join(self, timeout=None):
        s = CUR
        if s is not None and s.mode == RUN:
            me = s.by_ident.get(_get_ident())
            if me is not None and not me.finished:
                return s.op_join(me, self, timeout)
        if s is not None and s.mode == TEARDOWN:
            t = s.by_ident.get(_get_ident())
            if t is not None and not t.finished and t.idx != 0:
                raise Teardown()
        return None

    def is_alive(self):
        return self._started and self._sim is not None and not self._sim.finished

    isAlive = is_alive

    def __repr__(self):
        return "<ShimThread %s>" % self.name


class _MainThreadObj(object):
    name = "MainThread"
    daemon = False
    ident = None

    def is_alive(self):
        return True

    def getName(self):
        return self.name


_MAIN_OBJ = _MainThreadObj()
_orig_current_thread = None


def _current_thread():
    s = CUR
    if s is not None:
        t = s.by_ident.get(_get_ident())
        if t is not None:
            return t.obj if t.obj is not None else _MAIN_OBJ
    return _orig_current_thread()


# ---------------------------------------------------------------------------
# clock
# ---------------------------------------------------------------------------

def _monotonic():
    s = CUR
    if s is not None and s.mode == RUN and s.by_ident.get(_get_ident()) is not None:
        return s.clock_read()
    if s is not None and s.mode == TEARDOWN:
        return s.now_value()
    return _real_monotonic()


def _sleep(d):
    s = CUR
    if s is not None and s.mode == RUN:
        me = s.by_ident.get(_get_ident())
        if me is not None and not me.finished:
            return s.op_sleep(me, d)
    if s is not None and s.mode == TEARDOWN:
        t = s.by_ident.get(_get_ident())
        if t is not None and not t.finished and t.idx != 0:
            raise Teardown()
        return
    return _real_sleep(d)


# ---------------------------------------------------------------------------
# scheduler
# ---------------------------------------------------------------------------

TIMEOUT_MAX = 9223372036.0  # threading.TIMEOUT_MAX of CPython on Linux
ADV_MAX = 1000  # adversarial clock: largest step of one clock read (virtual seconds)


class Scheduler(object):
    def __init__(self, pm, eps=None, gran=0, max_steps=20000, adversarial=False):
        self.pm = pm
        self.mode = IDLE
        self.threads = []
        self.by_ident = {}
        self.cur = None
        self.gran = gran  # 0: stdlib futures atomic; 1: only threading/queue atomic
        self.steps = 0
        self.max_steps = max_steps
        self.deaths = []  # (thread name, exception repr, traceback text)
        self.anchor = SReal(0)  # clock = anchor + k*eps
        self.k = 0
        self.eps = eps if eps is not None else SReal(Fraction(1, 1024))
        self.clock_version = 0
        self.clock_reads = 0
        self.adversarial = adversarial
        self.n_delta = 0
        self.future_seq = 0
        self.points = 0
        self.preemptible_points = 0
        self.deadlock = None
        self.lock_events = None  # optional recording for engine L
        self.line_files = None
        self.aborted = None

    # ----------------------------------------------------------------- time
    def now_value(self):
        if self.k == 0:
            return self.anchor
        return self.anchor + self.eps * self.k

    def clock_read(self):
        v = self.now_value()
        self.clock_reads += 1
        if self.adversarial:
            # computation may take arbitrarily long: fresh positive delta per read
            self.n_delta += 1
            # (bounded by ADV_MAX: the harnesses' "forever" is 10**6 virtual seconds)
            d = self.pm.real("delta%d" % self.n_delta, lo=0, lo_strict=True, hi=ADV_MAX)
            self.anchor = v + d
            self.k = 0
        else:
            self.k += 1
        self.clock_version += 1
        return v

    def _expired(self, t):
        """Has t's timed wait reached its deadline?  (symbolic comparison -> may fork)
        t.deadline = [deadline, clock_version_checked, _]"""
        if t.timed_out:
            return True
        dl = t.deadline
        if dl is None:
            return False
        if dl[1] == self.clock_version:
            return False
        r = dl[0] <= self.now_value()
        if not isinstance(r, bool):
            r = bool(r)
        if r:
            t.timed_out = True
            return True
        dl[1] = self.clock_version
        return False

    def _advance_time(self, waiters):
        # choose the earliest deadline among waiters (symbolic comparisons fork)
        best = waiters[0]
        for w in waiters[1:]:
            if bool(w.deadline[0] < best.deadline[0]):
                best = w
        d = best.deadline[0]
        # d > now (else it would have been expired)
        self.anchor = d if isinstance(d, SReal) else SReal(d)
        self.k = 1
        self.clock_version += 1
        best.timed_out = True

    # --------------------------------------------------------------- enabled
    def _enabled(self, t):
        op = t.pending
        if op is None:
            return False
        k = op[0]
        if k == "acq":
            if op[1].owner is None:
                return True
            if not op[2]:
                return True
            return self._expired(t)
        if k == "join":
            if op[1].finished:
                return True
            return self._expired(t)
        if k == "sleep":
            return self._expired(t)
        return True  # rel, start, point, begin

    # --------------------------------------------------------- classification
    def _preemptible(self, me, explicit):
        """Is the current scheduling point one where a preemption is offered?"""
        if explicit:
            self._set_root(me, None)
            return True
        f = _getframe(1)
        while f is not None and _file_class(f.f_code.co_filename) == F_SHIM:
            f = f.f_back
        if f is None:
            self._set_root(me, None)
            return False
        c = _file_class(f.f_code.co_filename)
        if c == F_LIB:
            self._set_root(me, None)
            return True
        atomic = (F_ATOMIC, F_STDFUT) if self.gran == 0 else (F_ATOMIC,)
        if c in atomic:
            root = f
            caller = f.f_back
            while caller is not None:
                fc = _file_class(caller.f_code.co_filename)
                if fc in atomic:
                    root = caller
                elif fc != F_SHIM:
                    break
                caller = caller.f_back
            # identity of the outermost stdlib frame: the frame object is tagged through its
            # (otherwise unused) f_trace slot, so that no reference to the frame - and through
            # f_back to the whole call stack and its locals - has to be kept
            tok = root.f_trace
            same = tok is not None and tok is me.root_key
            if not same:
                tok = _Token()
                try:
                    root.f_trace = tok
                except Exception:  # noqa
                    tok = None
                me.root_key = tok
            if same:
                return False
            # entry into a stdlib call: preemptible iff called (transitively) from library code
            cc = _file_class(caller.f_code.co_filename) if caller is not None else F_OTHER
            if cc == F_LIB:
                return True
            if cc == F_STDFUT and self.gran >= 1:
                return True
            return False
        self._set_root(me, None)
        if c == F_STDFUT:  # gran >= 1
            return True
        return False

    @staticmethod
    def _set_root(me, root):
        me.root_key = root

    def _from_library(self):
        """Was the current lock operation issued (directly, or through one stdlib call) by library code?"""
        f = _getframe(2)
        atomic = (F_ATOMIC, F_STDFUT) if self.gran == 0 else (F_ATOMIC,)
        while f is not None:
            c = _file_class(f.f_code.co_filename)
            if c == F_SHIM or c in atomic:
                f = f.f_back
                continue
            return c == F_LIB
        return False

    @staticmethod
    def _flush(me):
        pass

    def _flush_if_safe(self, me):
        pass

    # ------------------------------------------------------------- decisions
    def _deadlock_info(self):
        out = []
        for t in self.threads:
            if t.finished or not t.started:
                continue
            op = t.pending
            out.append("%s:%s@%s" % (t.name, op[0] if op else "?", t.blocked_site))
        return "; ".join(out)

    def _pick(self, me, preemptible):
        """Decide which thread runs next.  me may be None (thread exit)."""
        self.steps += 1
        if self.steps > self.max_steps:
            self.aborted = "step-limit"
            if me is not None and me.idx == 0:
                self.unwinding = True
            raise StepLimit()
        threads = self.threads
        if me is not None and me is self.last_run:
            self.run_len += 1
        else:
            self.run_len = 0
            self.last_run = me
        unfair = self.run_len > self.FAIR
        if me is not None and not preemptible and not unfair and self._enabled(me):
            return me
        while True:
            en = [t for t in threads if t.started and not t.finished and self._enabled(t)]
            if en:
                break
            waiters = [t for t in threads if t.started and not t.finished and t.deadline is not None
                       and not t.timed_out]
            if not waiters:
                return None
            self._advance_time(waiters)
        me_en = me is not None and me in en
        if me_en and len(en) > 1 and me.pending is not None and me.pending[0] == "yield":
            # a spinning thread (repeated immediate return from a timed wait): others go first
            en = [t for t in en if t is not me]
            me_en = False
        if me_en and unfair and len(en) > 1:
            # fairness: a thread that ran FAIR consecutive scheduling points while others
            # are enabled (a spin loop) must let another thread run; not a preemption
            en = [t for t in en if t is not me]
            me_en = False
            self.run_len = 0
            self.fair_switches += 1
        if me_en and not preemptible:
            return me
        if len(en) == 1:
            return en[0]
        if self.directive is not None and len(en) > 1:
            d = self._directed(en)
            if d is not None:
                en = [d] + [t for t in en if t is not d]
                me_en = False  # follow the predicted order regardless of preemption cost
        if me_en:
            opts = [me] + [t for t in en if t is not me]
            costs = [0] + [1] * (len(opts) - 1)
        else:
            opts = en
            costs = None
        label = "%s|%s" % (me.idx if me is not None else "-", ",".join(str(t.idx) for t in opts))
        i = self.pm.choose(len(opts), label, costs)
        return opts[i]

    def _directed(self, en):
        """Directed schedule (engine L): prefer the enabled thread whose next synchronisation
        event comes first in the predicted order; threads that have consumed their part of the
        order run last."""
        order = self.directive
        best = None
        bestpos = None
        for t in en:
            pos = order.get((t.name, t.nev))
            if pos is None:
                # next event not in the order: has this thread still something to do in it?
                later = [p for (nm, k), p in order.items() if nm == t.name and k > t.nev]
                pos = min(later) if later else None
            if pos is not None and (bestpos is None or pos < bestpos):
                best, bestpos = t, pos
        return best

    def _site(self):
        try:
            f = _getframe(1)
            while f is not None and _file_class(f.f_code.co_filename) in (F_SHIM, F_ATOMIC):
                f = f.f_back
            if f is None:
                return "?"
            return "%s:%d" % (os.path.basename(f.f_code.co_filename), f.f_lineno)
        except Exception:
            return "?"

    def _yield(self, me, explicit=False):
        """Scheduling point for thread `me` (its pending op is published)."""
        if self.unwinding and me.idx == 0:
            return  # main is unwinding after deadlock / abort: no more scheduling
        self.points += 1
        pre = self._preemptible(me, explicit)
        if pre:
            self.preemptible_points += 1
        nxt = self._pick(me, pre)
        if nxt is me:
            return
        if nxt is None:
            # nothing can run and nobody is in a timed wait: deadlock
            me.blocked_site = self._site()
            info = self._deadlock_info()
            self.deadlock = info
            main = self.threads[0]
            if me is main:
                self.unwinding = True
                raise DeadlockError(info)
            main.inject = DeadlockError(info)
            nxt = main
        if me.pending is not None and me.pending[0] in ("acq", "join", "sleep") and not self._enabled_quiet(me):
            me.blocked_site = self._site()
        self.cur = nxt
        self.switches += 1
        nxt.baton.release()
        me.baton.acquire()
        self._wake(me)

    def _enabled_quiet(self, t):
        op = t.pending
        k = op[0]
        if k == "acq":
            return op[1].owner is None or not op[2] or t.timed_out
        if k == "join":
            return op[1].finished or t.timed_out
        if k == "sleep":
            return t.timed_out
        return True

    def _wake(self, me):
        if self.mode != RUN:
            raise Teardown()
        if me.inject is not None:
            e = me.inject
            me.inject = None
            self.unwinding = True
            raise e

    # ------------------------------------------------------------------- ops
    def _mk_deadline(self, me, timeout):
        d = self.now_value() + timeout
        me.deadline = [d, None, -1]
        me.timed_out = False

    def op_acquire(self, me, lock, blocking, timeout):
        if blocking and timeout is not None:
            neg = timeout < 0  # -1 means "no timeout"
            if isinstance(neg, SBool):
                neg = bool(neg)
            if neg:
                timeout = None
        else:
            timeout = None
        if timeout is not None:
            # like the real lock: a timeout beyond threading.TIMEOUT_MAX is an error, not a long wait
            big = timeout > TIMEOUT_MAX
            if isinstance(big, SBool):
                big = bool(big)
            if big:
                raise OverflowError("timeout value is too large")
            self._mk_deadline(me, timeout)
        me.pending = ("acq", lock, blocking)
        self._yield(me)
        me.pending = None
        me.deadline = None
        me.timed_out = False
        if lock.owner is None or (self.unwinding and me.idx == 0 and blocking):
            lock.owner = me
            if self.lock_events is not None:
                self.lock_events.append((me.name, "acq", lock.uid, self._site()))
                me.nev += 1
            if me.trash:
                self._flush_if_safe(me)
            return True
        return False

    def op_release(self, me, lock):
        me.pending = ("rel", lock)
        self._yield(me)
        me.pending = None
        if lock.owner is None:
            if self.unwinding:
                return
            raise RuntimeError("release unlocked lock")
        lock.owner = None
        if self.lock_events is not None:
            self.lock_events.append((me.name, "rel", lock.uid, None))
            me.nev += 1
        if self.post_release:
            # optional extra scheduling point right AFTER a release: lets threads that were
            # waiting for this lock run before the releasing thread's next (unlocked) statements
            if self._from_library():
                me.pending = ("post",)
                self._yield(me, explicit=True)
                me.pending = None
        if me.trash:
            self._flush_if_safe(me)

    def op_sleep(self, me, d):
        self._mk_deadline(me, d)
        me.pending = ("sleep",)
        self._yield(me, explicit=True)
        me.pending = None
        me.deadline = None
        me.timed_out = False

    def op_point(self, me):
        me.pending = ("point",)
        self._yield(me, explicit=True)
        me.pending = None
        if me.trash:
            self._flush_if_safe(me)

    def op_spin_yield(self, me):
        me.pending = ("yield",)
        self._yield(me, explicit=True)
        me.pending = None

    def op_join(self, me, thobj, timeout):
        target = thobj._sim
        if target is None:
            raise RuntimeError("cannot join thread before it is started")
        if timeout is not None:
            self._mk_deadline(me, timeout)
        me.pending = ("join", target)
        self._yield(me)
        me.pending = None
        me.deadline = None
        me.timed_out = False
        if self.lock_events is not None and target.finished:
            self.lock_events.append((me.name, "join", target.name, None))
            me.nev += 1

    def op_start(self, thobj):
        me = self.by_ident.get(_get_ident())
        nm = thobj.name
        if any(x.name == nm for x in self.threads):
            nm = "%s~%d" % (nm, len(self.threads))
        t = SimThread(len(self.threads), nm)
        t.obj = thobj
        thobj._sim = t
        t.pending = ("begin",)
        self.threads.append(t)
        t.dead.acquire()
        _thread.start_new_thread(self._bootstrap, (t, thobj))
        t.started = True
        if me is not None:
            if self.lock_events is not None:
                self.lock_events.append((me.name, "fork", t.name, None))
                me.nev += 1
            me.pending = ("start",)
            self._yield(me)
            me.pending = None

    def _bootstrap(self, t, thobj):
        t.ident = _get_ident()
        thobj.ident = t.ident
        self.by_ident[t.ident] = t
        t.baton.acquire()  # parked until first scheduled
        try:
            try:
                if self.mode != RUN:
                    raise Teardown()
                if self.tracefn is not None:
                    sys.settrace(self.tracefn)
                if self.profilefn is not None:
                    sys.setprofile(self.profilefn)
                t.pending = None
                thobj.run()
            except Teardown:
                pass
            except StepLimit:
                pass
            except DeadlockError:
                pass
            except (sym.Infeasible, sym.Divergence) as e:
                # not a property of the code: abort the whole execution
                if self.fatal is None:
                    self.fatal = e
            except BaseException as e:  # the thread died with an exception
                if self.mode == RUN:
                    self.deaths.append((t.name, repr(e), traceback.format_exc()))
            finally:
                sys.settrace(None)
                sys.setprofile(None)
                try:
                    t.root_key = None  # may free objects (weakref callbacks run as this thread)
                    self._flush(t)
                except BaseException:  # noqa
                    pass
                t.finished = True
                t.pending = None
                t.deadline = None
                if self.mode == RUN:
                    self._exit_handoff(t)
        finally:
            t.dead.release()

    def _exit_handoff(self, t):
        if self.fatal is not None:
            main = self.threads[0]
            if main.finished:
                return
            main.inject = self.fatal
            self.cur = main
            main.baton.release()
            return
        try:
            nxt = self._pick(None, False)
        except (sym.Infeasible, sym.Divergence) as e:
            self.fatal = e
            return self._exit_handoff(t)
        except BaseException:
            nxt = None
        if nxt is None:
            main = self.threads[0]
            if not main.finished:
                if self.aborted is None:
                    info = self._deadlock_info()
                    self.deadlock = info
                    main.inject = DeadlockError(info)
                else:
                    main.inject = StepLimit()
                nxt = main
            else:
                return
        self.cur = nxt
        nxt.baton.release()

    tracefn = None
    profilefn = None
    FAIR = 400
    lock_seq = 0
    directive = None
    post_release = False
    switches = 0
    run_len = 0
    last_run = None
    fair_switches = 0
    fatal = None
    unwinding = False

    # ---------------------------------------------------------------- driver
    def run(self, fn):
        """Run fn() as the simulated main thread.  Returns (result, exception)."""
        global CUR
        main = SimThread(0, "main")
        main.started = True
        main.ident = _get_ident()
        main.is_client = True
        self.threads.append(main)
        self.by_ident[main.ident] = main
        self.cur = main
        ShimThread._counter = 0
        CUR = self
        self.mode = RUN
        res = exc = None
        gc.disable()
        try:
            if self.tracefn is not None:
                sys.settrace(self.tracefn)
            if self.profilefn is not None:
                sys.setprofile(self.profilefn)
            try:
                res = fn()
            except BaseException as e:  # noqa
                exc = e
        finally:
            sys.settrace(None)
            sys.setprofile(None)
            main.finished = True
            self.mode = TEARDOWN
            main.root_key = None
            main.trash = []
            stuck = self._teardown()
            CUR = None
            self.mode = IDLE
            self.stuck = stuck
        return res, exc

    stuck = 0

    def _teardown(self):
        stuck = 0
        for t in self.threads[1:]:
            if t.finished:
                # wait for the OS thread to be really gone
                t.dead.acquire(True, 5.0)
                continue
            try:
                t.baton.release()
            except RuntimeError:
                pass
            if not t.dead.acquire(True, 5.0):
                stuck += 1
        return stuck


# ---------------------------------------------------------------------------
# public helpers used by harnesses (inside an execution)
# ---------------------------------------------------------------------------

def point():
    """An explicit preemptible scheduling point (used inside user callables)."""
    s = CUR
    if s is not None and s.mode == RUN:
        me = s.by_ident.get(_get_ident())
        if me is not None:
            s.op_point(me)
            return
    if s is not None and s.mode == TEARDOWN:
        t = s.by_ident.get(_get_ident())
        if t is not None and not t.finished and t.idx != 0:
            raise Teardown()


def now():
    """Current virtual time without advancing it (harness observation)."""
    s = CUR
    if s is None:
        return SReal(0)
    return s.now_value()


def vsleep_until(t):
    """Block the calling simulated thread until virtual time >= t."""
    s = CUR
    if s is not None and s.mode == RUN:
        me = s.by_ident.get(_get_ident())
        if me is not None:
            me.deadline = [t if isinstance(t, SReal) else SReal(t), None, -1]
            me.timed_out = False
            me.pending = ("sleep",)
            s._yield(me, explicit=True)
            me.pending = None
            me.deadline = None
            me.timed_out = False
            return
    if s is not None and s.mode == TEARDOWN:
        raise Teardown()


def current_name():
    s = CUR
    if s is None:
        return "?"
    t = s.by_ident.get(_get_ident())
    return t.name if t is not None else "?"


# ---------------------------------------------------------------------------
# installation
# ---------------------------------------------------------------------------

_installed = False
_orig_event_wait = None


def _event_wait(self, timeout=None):
    """threading.Event.wait with spin detection: a second consecutive immediate return of a
    timed wait on the same (already set) event, with no other thread having run in between,
    lets the other enabled threads run first (fair scheduling; not a preemption)."""
    s = CUR
    if timeout is not None and s is not None and s.mode == RUN and self._flag:
        me = s.by_ident.get(_get_ident())
        if me is not None:
            key = id(self)
            if me.spin_key == key and me.spin_epoch == s.switches:
                s.op_spin_yield(me)
            me.spin_key = key
            me.spin_epoch = s.switches
    return _orig_event_wait(self, timeout)


def _future_hash(self):
    h = self.__dict__.get("_vf_hash")
    if h is None:
        s = CUR
        if s is not None:
            s.future_seq += 1
            h = s.future_seq
        else:
            h = id(self) >> 4
        self.__dict__["_vf_hash"] = h
    return h


def install():
    """Patch the process.  Call before importing concurrent.futures / more_executors."""
    global _installed, _orig_current_thread
    if _installed:
        return
    for m in ("concurrent.futures", "concurrent.futures._base", "more_executors"):
        if m in sys.modules:
            raise RuntimeError("install() too late: %s already imported" % m)
    import logging  # noqa: F401  keep its module lock real
    import threading
    import queue
    import weakref  # noqa: F401

    logging.disable(logging.CRITICAL)
    _orig_current_thread = threading.current_thread
    threading.Lock = ShimLock
    threading._allocate_lock = ShimLock
    _orig_rl_init = threading._PyRLock.__init__

    def _rl_init(self, *a, **k):
        _orig_rl_init(self, *a, **k)
        s_ = CUR
        if s_ is None or s_.mode != RUN:
            _GLOBAL_RLOCKS.add(self)

    threading._PyRLock.__init__ = _rl_init
    threading.RLock = threading._PyRLock
    threading._CRLock = None
    threading.Thread = ShimThread
    threading.current_thread = _current_thread
    threading.currentThread = _current_thread
    threading._time = _monotonic
    threading._register_atexit = lambda *a, **k: None
    queue.SimpleQueue = queue._PySimpleQueue
    queue.time = _monotonic
    _time_mod.monotonic = _monotonic
    _time_mod.sleep = _sleep
    import concurrent.futures._base as base
    import concurrent.futures.thread  # noqa: F401

    base.Future.__hash__ = _future_hash
    global _orig_event_wait
    _orig_event_wait = threading.Event.wait
    threading.Event.wait = _event_wait
    _installed = True
