"""Symbolic scalars (z3-backed proxies) and the per-execution path manager.

An *execution* is a pure function of its decision vector.  A decision is either
  - a scheduling choice (index into the list of enabled threads), or
  - the outcome of a branch on a symbolic condition (True/False), or
  - a harness-declared finite choice (``ctx.choice``).
Every decision beyond the replayed prefix is resolved here: symbolic branches are
checked for feasibility with z3 (push/pop on one incremental solver) and infeasible
sides are never followed; the alternatives that remain are handed back to the explorer.
"""
from __future__ import annotations

import time as _time
from fractions import Fraction

import z3

_real_clock = _time.perf_counter


class Divergence(BaseException):
    """Replayed prefix does not match what the execution now does."""


class Infeasible(BaseException):
    """An assumption made the current path condition unsatisfiable."""


class Concretised(Exception):
    pass


# The currently active path manager (one execution at a time per process).
PM = None


def set_pm(pm):
    global PM
    PM = pm


def _to_frac(v):
    if isinstance(v, Fraction):
        return v
    if isinstance(v, bool):
        return Fraction(int(v))
    if isinstance(v, int):
        return Fraction(v)
    if isinstance(v, float):
        return Fraction(v)  # exact
    raise TypeError(v)


def _z3real(v):
    if isinstance(v, Fraction):
        return z3.RealVal(str(v.numerator) + "/" + str(v.denominator)) if v.denominator != 1 else z3.RealVal(v.numerator)
    return v


class Decision(object):
    __slots__ = ("kind", "chosen", "alts", "label", "pre", "n")

    def __init__(self, kind, chosen, alts, label, pre, n):
        self.kind = kind  # 's' schedule, 'b' branch, 'c' choice
        self.chosen = chosen
        self.alts = alts  # list of (alt_index, extra_preemption_cost)
        self.label = label
        self.pre = pre  # preemptions used before this decision
        self.n = n


class PathManager(object):
    def __init__(self, prefix=(), concrete=None, pbound=0, solver_timeout_ms=10000):
        self.prefix = list(prefix)
        self.pos = 0
        self.trace = []  # Decision objects
        self.constraints = []  # z3 BoolRefs asserted so far (path condition)
        self.solver = None
        self.concrete = concrete  # dict name -> Fraction/int (concrete replay) or None
        self.pbound = pbound
        self.preemptions = 0
        self.solver_timeout_ms = solver_timeout_ms
        self.solver_s = 0.0
        self.solver_calls = 0
        self.unknowns = 0
        self.vars = {}  # name -> z3 var (declared symbolic inputs)
        self.var_vals = {}  # name -> concrete value on concrete replay
        self.concretised = False
        self._model = None  # last known model of the PC (for cheap feasibility)
        self.sym_branches = 0
        self.memo = {}
        VAR_BOUNDS.clear()

    # ------------------------------------------------------------------ solver
    def _solver(self):
        if self.solver is None:
            s = z3.Solver()
            s.set("timeout", self.solver_timeout_ms)
            for c in self.constraints:
                s.add(c)
            self.solver = s
        return self.solver

    def _check(self, *extra):
        s = self._solver()
        t0 = _real_clock()
        if extra:
            s.push()
            for e in extra:
                s.add(e)
            r = s.check()
            m = s.model() if r == z3.sat else None
            s.pop()
        else:
            r = s.check()
            m = s.model() if r == z3.sat else None
        self.solver_s += _real_clock() - t0
        self.solver_calls += 1
        if r == z3.unknown:
            self.unknowns += 1
        return r, m

    def add(self, term):
        self.constraints.append(term)
        if self.solver is not None:
            self.solver.add(term)

    # --------------------------------------------------------------- variables
    def real(self, name, lo=None, hi=None, lo_strict=False):
        if self.concrete is not None:
            v = _to_frac(self.concrete[name])
            self.var_vals[name] = v
            return SReal(v)
        x = z3.Real(name)
        self.vars[name] = x
        if lo is not None:
            self.add(x > _z3real(_to_frac(lo)) if lo_strict else x >= _z3real(_to_frac(lo)))
        if hi is not None:
            self.add(x <= _z3real(_to_frac(hi)))
        VAR_BOUNDS[name] = (None if lo is None else _to_frac(lo), None if hi is None else _to_frac(hi))
        return SReal(x, (Fraction(0), {name: Fraction(1)}))

    def int(self, name, lo=None, hi=None):
        if self.concrete is not None:
            v = int(self.concrete[name])
            self.var_vals[name] = v
            return SInt(v)
        x = z3.Int(name)
        self.vars[name] = x
        if lo is not None:
            self.add(x >= lo)
        if hi is not None:
            self.add(x <= hi)
        VAR_BOUNDS[name] = (None if lo is None else Fraction(lo), None if hi is None else Fraction(hi))
        return SInt(x, (Fraction(0), {name: Fraction(1)}))

    def boolean(self, name):
        if self.concrete is not None:
            v = bool(self.concrete[name])
            self.var_vals[name] = v
            return v
        x = z3.Bool(name)
        self.vars[name] = x
        return SBool(x)

    def assume(self, cond):
        """Restrict the inputs: cond is added to the path condition (part of the claim)."""
        if isinstance(cond, SBool):
            cond = cond.t
        if cond is True:
            return
        if cond is False:
            raise Infeasible()
        if self.concrete is not None:
            return  # concrete values came from a model of a PC that contains it
        self.add(cond)
        self._model = None

    # --------------------------------------------------------------- decisions
    def _next_prefix(self, kind, n, label):
        d = self.prefix[self.pos]
        self.pos += 1
        if d >= n:
            raise Divergence("prefix decision %d out of range %d at %s" % (d, n, label))
        return d

    def choose(self, n, label, costs=None, kind="s"):
        """A finite choice among n options (scheduling or harness choice).

        costs[i] = preemption cost of option i (0/1).  Option 0 is the default.
        """
        if n == 1 and kind == "s":
            return 0
        if self.pos < len(self.prefix):
            d = self._next_prefix(kind, n, label)
            if costs:
                self.preemptions += costs[d]
            self.trace.append(Decision(kind, d, (), label, self.preemptions, n))
            return d
        pre = self.preemptions
        alts = []
        chosen = None
        for i in range(n):
            c = costs[i] if costs else 0
            if pre + c > self.pbound:
                continue
            if chosen is None:
                chosen = i
            else:
                alts.append((i, c))
        if chosen is None:
            chosen = 0  # cannot happen: option 0 always costs 0
        self.preemptions += costs[chosen] if costs else 0
        self.trace.append(Decision(kind, chosen, alts, label, pre, n))
        return chosen

    def branch(self, term):
        """Decide a symbolic condition.  Returns a Python bool."""
        self.sym_branches += 1
        if self.pos < len(self.prefix):
            d = self._next_prefix("b", 2, "branch")
            val = bool(d)
            self.add(term if val else z3.Not(term))
            self.trace.append(Decision("b", d, (), "br", self.preemptions, 2))
            return val
        # cheap side from the cached model
        feas_t = feas_f = None
        m = self._model
        if m is not None:
            try:
                ev = m.eval(term, model_completion=True)
                if z3.is_true(ev):
                    feas_t = True
                elif z3.is_false(ev):
                    feas_f = True
            except z3.Z3Exception:
                pass
        if feas_t is None:
            r, mm = self._check(term)
            feas_t = r == z3.sat
            if r == z3.unknown:
                feas_t = None
            if mm is not None:
                self._model = mm
        if feas_f is None:
            r, mm = self._check(z3.Not(term))
            feas_f = r == z3.sat
            if r == z3.unknown:
                feas_f = None
            if mm is not None and self._model is None:
                self._model = mm
        if feas_t is None or feas_f is None:
            # solver could not decide: follow what it could, mark inconclusive
            self.unknowns += 0  # already counted
            feas_t = feas_t is not False
            feas_f = feas_f is not False
        if not feas_t and not feas_f:
            raise Infeasible()
        if feas_t:
            val = True
            alts = [(0, 0)] if feas_f else []
        else:
            val = False
            alts = []
        self.add(term if val else z3.Not(term))
        # keep the cached model only if it agrees with the side taken
        if self._model is not None:
            try:
                ev = self._model.eval(term, model_completion=True)
                if z3.is_true(ev) != val:
                    self._model = None
            except z3.Z3Exception:
                self._model = None
        self.trace.append(Decision("b", 1 if val else 0, alts, "br", self.preemptions, 2))
        return val

    def decisions(self):
        return [d.chosen for d in self.trace]

    # -------------------------------------------------------------- obligations
    def prove(self, cond):
        """Is cond valid under the path condition?
        Returns ('proved', None) | ('refuted', model_dict) | ('unknown', None)"""
        if isinstance(cond, SBool):
            cond = cond.t
        if cond is True or cond is False or isinstance(cond, bool):
            return ("proved", None) if cond else ("refuted", self.model_values(None))
        if not isinstance(cond, z3.BoolRef):
            return ("proved", None) if cond else ("refuted", self.model_values(None))
        r, m = self._check(z3.Not(cond))
        if r == z3.unsat:
            return ("proved", None)
        if r == z3.sat:
            return ("refuted", self.model_values(m))
        return ("unknown", None)

    def model_values(self, m):
        if self.concrete is not None:
            return dict((k, str(v)) for k, v in self.var_vals.items())
        if m is None:
            r, m = self._check()
            if m is None:
                return {}
        out = {}
        for name, x in self.vars.items():
            v = m.eval(x, model_completion=True)
            if z3.is_rational_value(v):
                out[name] = str(Fraction(v.numerator_as_long(), v.denominator_as_long()))
            elif z3.is_int_value(v):
                out[name] = str(v.as_long())
            elif z3.is_true(v) or z3.is_false(v):
                out[name] = "1" if z3.is_true(v) else "0"
            elif z3.is_algebraic_value(v):
                a = v.approx(20)
                out[name] = str(Fraction(a.numerator_as_long(), a.denominator_as_long()))
            else:
                out[name] = str(v)
        return out

    def concretise(self, term):
        """Force a symbolic term to a model value (C-level consumer)."""
        r, m = self._check()
        if m is None:
            raise Infeasible()
        v = m.eval(term, model_completion=True)
        self.add(term == v)
        self.concretised = True
        if z3.is_int_value(v):
            return v.as_long()
        if z3.is_rational_value(v):
            return Fraction(v.numerator_as_long(), v.denominator_as_long())
        a = v.approx(20)
        return Fraction(a.numerator_as_long(), a.denominator_as_long())

    def smt2(self, extra=None):
        s = z3.Solver()
        for c in self.constraints:
            s.add(c)
        if extra is not None:
            s.add(extra)
        return s.to_smt2()


# ---------------------------------------------------------------------------
# proxies
# ---------------------------------------------------------------------------

def _branch(term):
    pm = PM
    if pm is None:
        raise RuntimeError("symbolic branch outside an execution")
    return pm.branch(term)


class SBool(object):
    """A symbolic condition.  Either a z3 term, or lazily (op, linear form d) meaning
    `d op 0`; the lazy form doubles as a memo key so that the same comparison is decided
    only once per path."""

    __slots__ = ("_t", "key")

    def __init__(self, t, key=None):
        self._t = t
        self.key = key

    @property
    def t(self):
        t = self._t
        if t is None:
            op, d = self.key
            t = self._t = op(_lin_term(d), z3.RealVal(0))
        return t

    def __bool__(self):
        pm = PM
        if pm is None:
            raise RuntimeError("symbolic branch outside an execution")
        k = self.key
        if k is not None:
            mk = (k[0], k[1][0], tuple(sorted(k[1][1].items())))
            r = pm.memo.get(mk)
            if r is None:
                r = pm.branch(self.t)
                pm.memo[mk] = r
            return r
        return pm.branch(self.t)

    def __and__(self, o):
        if isinstance(o, SBool):
            return SBool(z3.And(self.t, o.t))
        return self if o else False

    __rand__ = __and__

    def __or__(self, o):
        if isinstance(o, SBool):
            return SBool(z3.Or(self.t, o.t))
        return True if o else self

    __ror__ = __or__

    def __invert__(self):
        return SBool(z3.Not(self.t))

    def __repr__(self):
        return "SBool(%s)" % (self.t,)


def s_and(*xs):
    ts = []
    for x in xs:
        if isinstance(x, SBool):
            ts.append(x.t)
        elif isinstance(x, z3.BoolRef):
            ts.append(x)
        elif not x:
            return False
    if not ts:
        return True
    return SBool(z3.And(*ts)) if len(ts) > 1 else SBool(ts[0])


def s_or(*xs):
    ts = []
    for x in xs:
        if isinstance(x, SBool):
            ts.append(x.t)
        elif isinstance(x, z3.BoolRef):
            ts.append(x)
        elif x:
            return True
    if not ts:
        return False
    return SBool(z3.Or(*ts)) if len(ts) > 1 else SBool(ts[0])


def s_not(x):
    if isinstance(x, SBool):
        return SBool(z3.Not(x.t))
    if isinstance(x, z3.BoolRef):
        return SBool(z3.Not(x))
    return not x


def s_implies(a, b):
    return s_or(s_not(a), b)


def _num_payload(o):
    """-> (is_symbolic, payload) or None if o is not a number"""
    if isinstance(o, SReal):
        return o.v if isinstance(o.v, Fraction) else o.term()
    if isinstance(o, SInt):
        return o.v
    if isinstance(o, bool):
        return Fraction(int(o))
    if isinstance(o, int):
        return Fraction(o)
    if isinstance(o, float):
        if o != o or o in (float("inf"), float("-inf")):
            return o
        return Fraction(o)
    if isinstance(o, Fraction):
        return o
    return None


def _is_sym(v):
    return isinstance(v, z3.ExprRef)


# ---------------------------------------------------------------------------
# interval pre-filter: symbolic reals carry a linear form over the declared variables
# (when they are linear); a comparison that is already decided by the variables'
# declared bounds is answered without the solver and without recording a decision.
# The bounds are part of the path condition, so the answer is the one z3 would give.
# ---------------------------------------------------------------------------
VAR_BOUNDS = {}  # name -> (lo|None, hi|None)  (reset per execution)


def _lin_of(x):
    """linear form (const, {name: coeff}) of a payload-carrying number, or None"""
    if isinstance(x, SReal):
        return x._lin()
    if isinstance(x, SInt):
        if not _is_sym(x.v):
            return (x.v, {})
        return None
    p = _num_payload(x)
    if isinstance(p, Fraction):
        return (p, {})
    return None


def _lin_add(a, b, sign=1):
    if a is None or b is None:
        return None
    d = dict(a[1])
    for k, c in b[1].items():
        nc = d.get(k, 0) + sign * c
        if nc == 0:
            d.pop(k, None)
        else:
            d[k] = nc
    return (a[0] + sign * b[0], d)


def _lin_scale(a, c):
    if a is None:
        return None
    if c == 0:
        return (Fraction(0), {})
    return (a[0] * c, dict((k, v * c) for k, v in a[1].items()))


def _lin_range(l):
    """-> (min|None, max|None) of the linear form under VAR_BOUNDS"""
    lo = hi = l[0]
    for k, c in l[1].items():
        b = VAR_BOUNDS.get(k)
        if b is None:
            return (None, None)
        vlo, vhi = b
        if c > 0:
            lo = None if (lo is None or vlo is None) else lo + c * vlo
            hi = None if (hi is None or vhi is None) else hi + c * vhi
        else:
            lo = None if (lo is None or vhi is None) else lo + c * vhi
            hi = None if (hi is None or vlo is None) else hi + c * vlo
        if lo is None and hi is None:
            return (None, None)
    return (lo, hi)


def _quick_range(lo, hi, op):
    """Decide (d op 0) for d in [lo, hi]; None if not decided.  Strictness of variable
    bounds is ignored (only conclusions valid for closed bounds are drawn)."""
    if op is _lt:
        if hi is not None and hi < 0:
            return True
        if lo is not None and lo >= 0:
            return False
    elif op is _le:
        if hi is not None and hi <= 0:
            return True
        if lo is not None and lo > 0:
            return False
    elif op is _gt:
        if lo is not None and lo > 0:
            return True
        if hi is not None and hi <= 0:
            return False
    elif op is _ge:
        if lo is not None and lo >= 0:
            return True
        if hi is not None and hi < 0:
            return False
    elif op is _eq:
        if (lo is not None and lo > 0) or (hi is not None and hi < 0):
            return False
    elif op is _ne:
        if (lo is not None and lo > 0) or (hi is not None and hi < 0):
            return True
    return None


def _cmp(a, b, op):
    """a, b payloads (Fraction | z3 term | float inf/nan)."""
    sa, sb = _is_sym(a), _is_sym(b)
    if not sa and not sb:
        return op(a, b)
    if isinstance(a, float) or isinstance(b, float):
        # comparing a symbolic (finite) number with inf/nan
        other = a if isinstance(a, float) else b
        if other != other:
            return op is _ne
        fin = Fraction(0)
        return op(fin, other) if sb is False and isinstance(b, float) else op(other, fin)
    return SBool(op(_z3real(a) if not sa else a, _z3real(b) if not sb else b))


def _lt(x, y):
    return x < y


def _le(x, y):
    return x <= y


def _gt(x, y):
    return x > y


def _ge(x, y):
    return x >= y


def _eq(x, y):
    return x == y


def _ne(x, y):
    return x != y


def _arith(a, b, op):
    sa, sb = _is_sym(a), _is_sym(b)
    if not sa and not sb:
        return op(a, b)
    if isinstance(a, float) or isinstance(b, float):
        raise Concretised("inf/nan arithmetic with symbolic value")
    if not sa:
        a = _z3real(a)
    if not sb:
        b = _z3real(b)
    if z3.is_int(a) and not z3.is_int(b):
        a = z3.ToReal(a)
    if z3.is_int(b) and not z3.is_int(a):
        b = z3.ToReal(b)
    return op(a, b)


_OPS = {"+": lambda x, y: x + y, "-": lambda x, y: x - y, "*": lambda x, y: x * y, "/": lambda x, y: x / y}
_NAN = float("nan")


def _lin_term(lin):
    """z3 term of a linear form."""
    pm = PM
    t = None
    for name, c in lin[1].items():
        x = pm.vars[name]
        m = x if c == 1 else _z3real(c) * x
        t = m if t is None else t + m
    if lin[0] != 0 or t is None:
        t = _z3real(lin[0]) if t is None else t + _z3real(lin[0])
    return t


class SReal(float):
    """A real number flowing through the code under test: an exact Fraction, or a symbolic
    value kept as a linear form over the declared variables (z3 term built lazily), or a
    general z3 real term (nonlinear).  Subclass of float so isinstance(x, float) holds."""

    __slots__ = ("v", "lin")

    def __new__(cls, v, lin=None):
        if isinstance(v, SReal):
            return v
        if v is None and lin is not None and not lin[1]:
            v = lin[0]
        if isinstance(v, (int, float)) and not isinstance(v, bool):
            if isinstance(v, float) and (v != v or v in (float("inf"), float("-inf"))):
                return float(v)  # not representable: plain float
            v = Fraction(v)
        if isinstance(v, Fraction):
            o = float.__new__(cls, float(v))
            o.v = v
            o.lin = None
        else:
            o = float.__new__(cls, _NAN)
            o.v = v
            o.lin = lin
        return o

    @property
    def symbolic(self):
        return not isinstance(self.v, Fraction)

    def term(self):
        v = self.v
        if v is None:
            v = self.v = _lin_term(self.lin)
        elif isinstance(v, Fraction):
            return _z3real(v)
        return v

    def _lin(self):
        if isinstance(self.v, Fraction):
            return (self.v, {})
        return self.lin

    def frac(self):
        if not isinstance(self.v, Fraction):
            raise Concretised("symbolic")
        return self.v

    # arithmetic -----------------------------------------------------------
    def _bin(self, o, kind, swap=False):
        if isinstance(o, SReal):
            lb = o._lin()
        else:
            p = _num_payload(o)
            if p is None:
                return NotImplemented
            if isinstance(p, float):  # inf / nan
                a, b = (p, float(self)) if swap else (float(self), p)
                if self.symbolic:
                    raise Concretised("inf/nan arithmetic with symbolic value")
                return _OPS[kind](a, b)
            lb = (p, {}) if isinstance(p, Fraction) else None
        la = self._lin()
        if swap:
            la, lb = lb, la
        if la is not None and lb is not None:
            r = None
            if kind == "+":
                r = _lin_add(la, lb, 1)
            elif kind == "-":
                r = _lin_add(la, lb, -1)
            elif kind == "*":
                if not la[1]:
                    r = _lin_scale(lb, la[0])
                elif not lb[1]:
                    r = _lin_scale(la, lb[0])
            elif kind == "/":
                if not lb[1]:
                    if lb[0] == 0:
                        raise ZeroDivisionError("float division by zero")
                    r = _lin_scale(la, 1 / lb[0])
            if r is not None:
                return SReal(None, r)
        # nonlinear: z3 terms
        ta = self.term()
        if isinstance(o, SReal):
            tb = o.term()
        else:
            tb = p if _is_sym(p) else _z3real(p)
            if z3.is_int(tb):
                tb = z3.ToReal(tb)
        if swap:
            ta, tb = tb, ta
        return SReal(_OPS[kind](ta, tb))

    def __add__(self, o):
        return self._bin(o, "+")

    def __radd__(self, o):
        return self._bin(o, "+", True)

    def __sub__(self, o):
        return self._bin(o, "-")

    def __rsub__(self, o):
        return self._bin(o, "-", True)

    def __mul__(self, o):
        return self._bin(o, "*")

    def __rmul__(self, o):
        return self._bin(o, "*", True)

    def __truediv__(self, o):
        return self._bin(o, "/")

    def __rtruediv__(self, o):
        return self._bin(o, "/", True)

    def __neg__(self):
        if isinstance(self.v, Fraction):
            return SReal(-self.v)
        if self.lin is not None:
            return SReal(None, _lin_scale(self.lin, -1))
        return SReal(-self.term())

    def __pos__(self):
        return self

    def __abs__(self):
        if isinstance(self.v, Fraction):
            return SReal(abs(self.v))
        t = self.term()
        return SReal(z3.If(t >= 0, t, -t))

    def __pow__(self, n, mod=None):
        pn = _num_payload(n)
        if pn is None:
            return NotImplemented
        if _is_sym(pn):
            pn = Fraction(PM.concretise(pn))
        if isinstance(self.v, Fraction):
            if pn.denominator == 1:
                if self.v == 0 and pn < 0:
                    raise ZeroDivisionError("0.0 cannot be raised to a negative power")
                return SReal(self.v ** int(pn))
            return float(self.v) ** float(pn)
        if pn.denominator != 1:
            raise Concretised("fractional power of symbolic")
        k = int(pn)
        if k == 0:
            return SReal(Fraction(1))
        if k == 1:
            return self
        t = self.term()
        r = t
        for _ in range(abs(k) - 1):
            r = r * t
        if k < 0:
            r = z3.RealVal(1) / r
        return SReal(r)

    def __rpow__(self, base):
        # base ** self
        if not isinstance(self.v, Fraction):
            k = Fraction(PM.concretise(self.term()))
        else:
            k = self.v
        if k.denominator == 1:
            if isinstance(base, (SReal, SInt)):
                return base ** int(k)
            pb = _num_payload(base)
            if pb is None:
                return NotImplemented
            return SReal(pb ** int(k))
        return float(base) ** float(k)

    # comparisons ----------------------------------------------------------
    def _c(self, o, op):
        if isinstance(o, SReal):
            lb = o._lin()
            p = None
        else:
            p = _num_payload(o)
            if p is None:
                return NotImplemented
            if isinstance(p, float):  # inf / nan against a finite number
                if p != p:
                    return op is _ne
                return op(Fraction(0), p)
            lb = (p, {}) if isinstance(p, Fraction) else None
        la = self._lin()
        if la is not None and lb is not None:
            d = _lin_add(la, lb, -1)
            if not d[1]:
                return op(d[0], 0)
            lo, hi = _lin_range(d)
            q = _quick_range(lo, hi, op)
            if q is not None:
                return q
            return SBool(None, (op, d))
        ta = self.term()
        if isinstance(o, SReal):
            tb = o.term()
        else:
            tb = p if _is_sym(p) else _z3real(p)
            if z3.is_int(tb):
                tb = z3.ToReal(tb)
        return SBool(op(ta, tb))

    def __lt__(self, o):
        return self._c(o, _lt)

    def __le__(self, o):
        return self._c(o, _le)

    def __gt__(self, o):
        return self._c(o, _gt)

    def __ge__(self, o):
        return self._c(o, _ge)

    def __eq__(self, o):
        r = self._c(o, _eq)
        return False if r is NotImplemented else r

    def __ne__(self, o):
        r = self._c(o, _ne)
        return True if r is NotImplemented else r

    def __hash__(self):
        if not isinstance(self.v, Fraction):
            return id(self) >> 4
        return hash(self.v)

    def __bool__(self):
        if not isinstance(self.v, Fraction):
            return bool(self._c(0, _ne))
        return self.v != 0

    def __float__(self):
        if not isinstance(self.v, Fraction):
            v = PM.concretise(self.term())
            return float(v)
        return float(self.v)

    def __int__(self):
        if not isinstance(self.v, Fraction):
            v = PM.concretise(self.term())
            return int(v)
        return int(self.v)

    __trunc__ = __int__

    def __repr__(self):
        if isinstance(self.v, Fraction):
            return "SReal(%s)" % (self.v,)
        if self.lin is not None:
            parts = ["%s*%s" % (c, k) if c != 1 else k for k, c in sorted(self.lin[1].items())]
            if self.lin[0] != 0:
                parts.append(str(self.lin[0]))
            return "SReal(%s)" % " + ".join(parts)
        return "SReal(%s)" % (z3.simplify(self.term()),)

    __str__ = __repr__


def _int_arith(a, b, op):
    if not _is_sym(a) and not _is_sym(b):
        return op(a, b)
    return op(a if _is_sym(a) else (z3.IntVal(int(a)) if a.denominator == 1 else _z3real(a)),
              b if _is_sym(b) else (z3.IntVal(int(b)) if b.denominator == 1 else _z3real(b)))


class SInt(int):
    """A mathematical integer: exact value or z3 Int term (subclass of int)."""

    def __new__(cls, v, lin=None):
        if isinstance(v, SInt):
            lin = v.lin
            v = v.v
        if v is None and lin is not None:
            v = _lin_term(lin) if lin[1] else lin[0]
        if isinstance(v, int):
            o = int.__new__(cls, v)
            o.v = Fraction(v)
        elif isinstance(v, Fraction):
            o = int.__new__(cls, int(v))
            o.v = v
        else:
            o = int.__new__(cls, 0)
            o.v = v
        o.lin = lin if _is_sym(o.v) else None
        return o

    @property
    def symbolic(self):
        return _is_sym(self.v)

    def term(self):
        return self.v if _is_sym(self.v) else z3.IntVal(int(self.v))

    def _lin(self):
        if not _is_sym(self.v):
            return (self.v, {})
        return self.lin

    def _bin(self, o, op, swap=False, real=False, kind=None):
        if isinstance(o, SReal):
            return NotImplemented if not swap else NotImplemented
        p = _num_payload(o)
        if p is None:
            return NotImplemented
        if isinstance(o, float) and not isinstance(o, SReal):
            # int (op) float -> real arithmetic
            a, b = (p, self.v) if swap else (self.v, p)
            return SReal(_arith(a, b, op))
        a, b = (p, self.v) if swap else (self.v, p)
        r = _int_arith(a, b, op)
        if _is_sym(r):
            lin = None
            if kind is not None:
                la, lb = self._lin(), _lin_of(o)
                if swap:
                    la, lb = lb, la
                if la is not None and lb is not None:
                    if kind == "+":
                        lin = _lin_add(la, lb, 1)
                    elif kind == "-":
                        lin = _lin_add(la, lb, -1)
                    elif not la[1]:
                        lin = _lin_scale(lb, la[0])
                    elif not lb[1]:
                        lin = _lin_scale(la, lb[0])
            return SInt(r, lin) if z3.is_int(r) else SReal(r)
        return SInt(r) if r.denominator == 1 else SReal(r)

    def __add__(self, o):
        return self._bin(o, lambda x, y: x + y, False, kind="+")

    def __radd__(self, o):
        return self._bin(o, lambda x, y: x + y, True, kind="+")

    def __sub__(self, o):
        return self._bin(o, lambda x, y: x - y, False, kind="-")

    def __rsub__(self, o):
        return self._bin(o, lambda x, y: x - y, True, kind="-")

    def __mul__(self, o):
        return self._bin(o, lambda x, y: x * y, False, kind="*")

    def __rmul__(self, o):
        return self._bin(o, lambda x, y: x * y, True, kind="*")

    def __neg__(self):
        return SInt(-self.v, _lin_scale(self.lin, -1) if (_is_sym(self.v) and self.lin is not None) else None)

    def __pos__(self):
        return self

    def __abs__(self):
        if not _is_sym(self.v):
            return SInt(abs(self.v))
        return SInt(z3.If(self.v >= 0, self.v, -self.v))

    def __floordiv__(self, o):
        p = _num_payload(o)
        if p is None or isinstance(o, float):
            return NotImplemented
        if not _is_sym(self.v) and not _is_sym(p):
            return SInt(int(self.v) // int(p))
        if not _is_sym(p) and p == 0:
            raise ZeroDivisionError("integer division or modulo by zero")
        a = self.term()
        b = p if _is_sym(p) else z3.IntVal(int(p))
        if _is_sym(p) and _branch(b == 0):
            raise ZeroDivisionError("integer division or modulo by zero")
        # floor(a/b): z3 int division is euclidean (= floor for b > 0);
        # for b < 0 use the exact quotient (a - pymod(a, b)) / b
        m = self._pymod_term(a, b)
        return SInt(z3.If(b > 0, a / b, (a - m) / b))

    @staticmethod
    def _pymod_term(a, b):
        # z3 '%' is euclidean (result >= 0). python: result has the sign of b.
        r = a % b
        return z3.If(b > 0, r, z3.If(r == 0, r, r + b))

    def __mod__(self, o):
        p = _num_payload(o)
        if p is None or isinstance(o, float):
            return NotImplemented
        if not _is_sym(self.v) and not _is_sym(p):
            return SInt(int(self.v) % int(p))
        if not _is_sym(p) and p == 0:
            raise ZeroDivisionError("integer modulo by zero")
        a = self.term()
        b = p if _is_sym(p) else z3.IntVal(int(p))
        if _is_sym(p) and _branch(b == 0):
            raise ZeroDivisionError("integer modulo by zero")
        return SInt(self._pymod_term(a, b))

    def __truediv__(self, o):
        return SReal(self.v if not _is_sym(self.v) else z3.ToReal(self.v)).__truediv__(o)

    def _c(self, o, op):
        if isinstance(o, SReal):
            return NotImplemented  # let SReal's reflected comparison handle it
        p = _num_payload(o)
        if p is None:
            return NotImplemented
        la, lb = self._lin(), _lin_of(o)
        if la is not None and lb is not None:
            d = _lin_add(la, lb, -1)
            if not d[1]:
                return op(d[0], 0)
            lo, hi = _lin_range(d)
            q = _quick_range(lo, hi, op)
            if q is not None:
                return q
            return SBool(None, (op, d))
        a, b = self.v, p
        if _is_sym(a) and z3.is_int(a) and not _is_sym(b) and isinstance(b, Fraction) and b.denominator == 1:
            return SBool(op(a, z3.IntVal(int(b))))
        if _is_sym(a) and _is_sym(b) and z3.is_int(a) and z3.is_int(b):
            return SBool(op(a, b))
        if _is_sym(a) and z3.is_int(a):
            a = z3.ToReal(a)
        if _is_sym(b) and z3.is_int(b):
            b = z3.ToReal(b)
        return _cmp(a, b, op)

    def __lt__(self, o):
        return self._c(o, _lt)

    def __le__(self, o):
        return self._c(o, _le)

    def __gt__(self, o):
        return self._c(o, _gt)

    def __ge__(self, o):
        return self._c(o, _ge)

    def __eq__(self, o):
        p = _num_payload(o)
        if p is None:
            return False
        return self._c(o, _eq)

    def __ne__(self, o):
        p = _num_payload(o)
        if p is None:
            return True
        return self._c(o, _ne)

    def __hash__(self):
        if _is_sym(self.v):
            return id(self) >> 4
        return hash(int(self.v))

    def __bool__(self):
        if _is_sym(self.v):
            return _branch(self.v != 0)
        return self.v != 0

    def __index__(self):
        if _is_sym(self.v):
            return int(PM.concretise(self.v))
        return int(self.v)

    def __int__(self):
        return self.__index__()

    def __float__(self):
        return float(self.__index__())

    def __repr__(self):
        if _is_sym(self.v):
            return "SInt(%s)" % (z3.simplify(self.v),)
        return "SInt(%s)" % (int(self.v),)

    __str__ = __repr__


def eq_term(a, b):
    """Equality of two (possibly symbolic) numbers as an obligation term/bool."""
    pa, pb = _num_payload(a), _num_payload(b)
    if pa is None or pb is None:
        return a == b
    if not _is_sym(pa) and not _is_sym(pb):
        return pa == pb
    if isinstance(a, SInt):
        return a._c(b, _eq)
    if isinstance(b, SInt):
        return b._c(a, _eq)
    return _cmp(pa, pb, _eq)


def is_symbolic(x):
    return isinstance(x, (SReal, SInt)) and x.symbolic or isinstance(x, SBool)
