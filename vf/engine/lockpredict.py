"""Engine L: lock-order deadlock prediction from the synchronisation trace of one execution.

From the base-lock events (thread, acquire/release, lock, site) of an execution explored by
engine S, build the lock-dependency relation, find 2-cycles between different threads with
disjoint guard sets, and ask z3 whether some reordering of the trace - consistent with program
order, fork/join, mutual exclusion on the two cycle locks and the observed order on every other
lock - reaches a state in which each thread holds one lock of the cycle and requests the other.
`sat` yields an order of events, which engine S then follows as a directed schedule on the real
code; only a deadlock reproduced that way is reported.  `unsat` discharges the cycle.
This finds inversions whose two actors never overlapped in the explored execution, i.e. beyond the
preemption bound of the exploration that produced the trace."""
from __future__ import annotations

import z3


def dependencies(trace):
    """trace: list of (thread, kind, lock, site); kind in acq/rel/fork/join.
    -> per-thread event lists and lock dependencies (thread, held_lock, wanted_lock, guards, event index)"""
    held = {}
    deps = []
    for gi, (t, kind, lock, site) in enumerate(trace):
        h = held.setdefault(t, [])
        if kind == "acq":
            for a in h:
                if a != lock:
                    deps.append((t, a, lock, frozenset(h), gi))
            h.append(lock)
        elif kind == "rel":
            if lock in h:
                # remove the most recent acquisition of that lock
                for k in range(len(h) - 1, -1, -1):
                    if h[k] == lock:
                        del h[k]
                        break
    return deps


def cycles(deps):
    out = []
    seen = set()
    for d1 in deps:
        for d2 in deps:
            if d1[0] == d2[0]:
                continue
            if d1[1] == d2[2] and d1[2] == d2[1]:
                g1 = d1[3] - {d1[1]}
                g2 = d2[3] - {d2[1]}
                if g1 & g2:
                    continue  # a common guard lock serialises them
                key = (d1[0], d2[0], d1[1], d1[2], d1[4], d2[4])
                rkey = (d2[0], d1[0], d2[1], d2[2], d2[4], d1[4])
                if key in seen or rkey in seen:
                    continue
                seen.add(key)
                out.append((d1, d2))
    return out


def feasible(trace, d1, d2, timeout_ms=5000):
    """z3 query for one candidate cycle.  Returns ('sat', order) | ('unsat', None) | ('unknown', None);
    order = list of (thread, per-thread event ordinal) of the events executed before the deadlock."""
    n = len(trace)
    O = [z3.Int("o%d" % i) for i in range(n)]
    X = [z3.Bool("x%d" % i) for i in range(n)]
    s = z3.Solver()
    s.set("timeout", timeout_ms)
    by_thread = {}
    for i, (t, kind, lock, site) in enumerate(trace):
        by_thread.setdefault(t, []).append(i)
        s.add(O[i] >= 0, O[i] < n)
    # program order and prefix closure
    for t, evs in by_thread.items():
        for a, b in zip(evs, evs[1:]):
            s.add(z3.Implies(X[b], z3.And(X[a], O[a] < O[b])))
    # fork / join
    for i, (t, kind, lock, site) in enumerate(trace):
        if kind == "fork" and lock in by_thread:
            first = by_thread[lock][0]
            s.add(z3.Implies(X[first], z3.And(X[i], O[i] < O[first])))
        if kind == "join" and lock in by_thread:
            last = by_thread[lock][-1]
            s.add(z3.Implies(X[i], z3.And(X[last], O[last] < O[i])))
    t1, A, B, _g1, r1 = d1
    t2, _b, _a, _g2, r2 = d2
    # the two requests and everything after them are not executed; everything before is
    for (t, r) in ((t1, r1), (t2, r2)):
        for i in by_thread[t]:
            s.add(X[i] if i < r else z3.Not(X[i]))
    # critical sections per lock
    sections = {}
    open_ = {}
    for i, (t, kind, lock, site) in enumerate(trace):
        if kind == "acq":
            open_.setdefault((t, lock), []).append(i)
        elif kind == "rel":
            # a release may be issued by another thread (condition waiter locks): match any open acquisition
            cand = [k for k in open_ if k[1] == lock and open_[k]]
            own = [k for k in cand if k[0] == t]
            k = (own or cand or [None])[0]
            if k is not None:
                a = open_[k].pop()
                sections.setdefault(lock, []).append((k[0], a, i))
    for (t, lock), lst in open_.items():
        for a in lst:
            sections.setdefault(lock, []).append((t, a, None))
    for lock in (A, B):
        secs = sections.get(lock, [])
        for x in range(len(secs)):
            for y in range(x + 1, len(secs)):
                (ta, a1, rel1), (tb, a2, rel2) = secs[x], secs[y]
                if ta == tb:
                    continue
                c1 = z3.And(X[rel1], O[rel1] < O[a2]) if rel1 is not None else z3.BoolVal(False)
                c2 = z3.And(X[rel2], O[rel2] < O[a1]) if rel2 is not None else z3.BoolVal(False)
                s.add(z3.Implies(z3.And(X[a1], X[a2]), z3.Or(c1, c2)))
    # every other lock keeps its observed order of events
    per_lock = {}
    for i, (t, kind, lock, site) in enumerate(trace):
        if kind in ("acq", "rel") and lock not in (A, B):
            per_lock.setdefault(lock, []).append(i)
    for lock, evs in per_lock.items():
        for a, b in zip(evs, evs[1:]):
            s.add(z3.Implies(X[b], z3.And(X[a], O[a] < O[b])))
    # distinct positions for executed events of different threads on the cycle locks is implied by '<'
    r = s.check()
    if r == z3.unsat:
        return "unsat", None
    if r != z3.sat:
        return "unknown", None
    m = s.model()
    ex = [i for i in range(n) if z3.is_true(m.eval(X[i], model_completion=True))]
    ex.sort(key=lambda i: (m.eval(O[i], model_completion=True).as_long(), i))
    ordinal = {}
    order = []
    pos = {}
    for t, evs in by_thread.items():
        for k, i in enumerate(evs):
            pos[i] = k
    for i in ex:
        order.append((trace[i][0], pos[i]))
    return "sat", order


def predict(trace, seen=None, limit=6):
    """-> list of dicts {cycle:(t1,t2,siteA,siteB), verdict, order}"""
    out = []
    deps = dependencies(trace)
    if not deps:
        return out
    site_of = {}
    for (t, kind, lock, site) in trace:
        if kind == "acq":
            site_of.setdefault(lock, site)
    for d1, d2 in cycles(deps)[:limit * 3]:
        key = (d1[0], d2[0], site_of.get(d1[1]), site_of.get(d1[2]))
        if seen is not None:
            if key in seen:
                continue
            seen.add(key)
        verdict, order = feasible(trace, d1, d2)
        out.append(dict(cycle=key, verdict=verdict, order=order))
        if len(out) >= limit:
            break
    return out
