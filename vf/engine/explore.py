"""Execution of one path, DFS over decision prefixes, worker process main loop."""
from __future__ import annotations

import gc
import importlib
import json
import os
import sys
import time as _time
import traceback
from fractions import Fraction

from . import sched, sym
from .sym import PathManager, Divergence, Infeasible, SBool, SReal, SInt

_clock = _time.perf_counter


class CheckAbort(BaseException):
    """Raised by ctx.require() to end a path early (after recording a failed check)."""


class Ev(object):
    """Global event log of one execution (only one thread runs at a time)."""

    def __init__(self):
        self.items = []

    def add(self, kind, **kw):
        kw["k"] = kind
        kw["seq"] = len(self.items)
        kw["t"] = sched.now()
        kw["th"] = sched.current_name()
        self.items.append(kw)
        return kw

    def of(self, kind, **match):
        out = []
        for e in self.items:
            if e["k"] != kind:
                continue
            ok = True
            for k, v in match.items():
                if e.get(k) is not v and e.get(k) != v:
                    ok = False
                    break
            if ok:
                out.append(e)
        return out

    def dump(self, limit=400):
        out = []
        for e in self.items[:limit]:
            d = dict((k, v) for k, v in e.items() if k not in ("k", "seq", "t", "th", "fut", "fn"))
            out.append("%3d %-22s %-16s %s %s" % (e["seq"], e["th"], e["k"], e["t"], d))
        return out


class Ctx(object):
    """What a scenario function sees."""

    def __init__(self, pm, sch, params, bounds):
        self.pm = pm
        self.sched = sch
        self.params = params
        self.bounds = bounds
        self.results = []  # (label, status, model|None, info)
        self.reached = {}
        self.ev = Ev()
        self.eps = sch.eps
        self.implicit_deaths = True
        self.implicit_deadlock = True
        self.notes = []
        self.concrete = pm.concrete is not None
        self.smt_samples = []
        self.smt_budget = 0

    # symbolic inputs
    def real(self, name, lo=None, hi=None, lo_strict=False):
        return self.pm.real(name, lo, hi, lo_strict)

    def int(self, name, lo=None, hi=None):
        return self.pm.int(name, lo, hi)

    def boolean(self, name):
        return self.pm.boolean(name)

    def choice(self, n, label="choice"):
        return self.pm.choose(n, label, None, kind="c")

    def assume(self, cond):
        self.pm.assume(cond)

    # obligations
    def check(self, label, cond, info=None):
        st, model = self.pm.prove(cond)
        self.results.append((label, st, model, info))
        if st == "proved" and self.smt_budget > 0 and isinstance(cond, SBool):
            # keep the discharged obligation (PC and not A) as SMT-LIB2 for an independent solver
            try:
                import z3
                self.smt_samples.append((label, self.pm.smt2(z3.Not(cond.t))))
                self.smt_budget -= 1
            except Exception:  # noqa
                pass
        return st == "proved"

    def require(self, label, cond, info=None):
        if not self.check(label, cond, info):
            raise CheckAbort()

    def reach(self, name, n=1):
        self.reached[name] = self.reached.get(name, 0) + n


    def now(self):
        return self.sched.now_value()

    def point(self):
        sched.point()


class PathResult(object):
    __slots__ = ("trace", "results", "reached", "deaths", "deadlock", "aborted", "error",
                 "points", "steps", "solver_s", "solver_calls", "unknowns", "stuck", "model",
                 "diverged", "infeasible", "sym_branches", "concretised", "ret", "nthreads",
                 "funcs", "log", "smt", "ltrace")


def run_one(scn, params, bounds, prefix, concrete=None, cov=False, want_log=False, smt_budget=0, directive=None):
    pm = PathManager(prefix, concrete=concrete, pbound=bounds.get("P", 0),
                     solver_timeout_ms=bounds.get("solver_timeout_ms", 10000))
    sym.set_pm(pm)
    if bounds.get("eps_concrete"):
        eps = SReal(Fraction(1, 1024))
    else:
        eps = pm.real("eps", lo=0, hi=Fraction(bounds.get("eps_hi", "1/1024")), lo_strict=True)
    sch = sched.Scheduler(pm, eps=eps, gran=bounds.get("gran", 0),
                          max_steps=bounds.get("max_steps", 20000),
                          adversarial=bounds.get("adversarial", False))
    sch.post_release = bool(bounds.get("post_release", False))
    if bounds.get("lpredict") or directive is not None:
        sch.lock_events = []
    if directive is not None:
        sch.directive = dict(((nm, k), i) for i, (nm, k) in enumerate(directive))
    ctx = Ctx(pm, sch, params, bounds)
    ctx.smt_budget = smt_budget
    funcs = None
    if cov:
        funcs = set()
        libp = sched._LIB_PREFIX

        def prof(frame, ev, arg):
            if ev == "call":
                co = frame.f_code
                if co.co_filename.startswith(libp):
                    funcs.add(co.co_filename[len(libp):] + ":" + co.co_qualname)

        sch.profilefn = prof
    lines = bounds.get("line_files")
    if lines:
        sch.tracefn = _make_line_tracer(sch, lines)
    r = PathResult()
    r.diverged = r.infeasible = False
    r.error = None
    ret = None
    exc = None

    def body():
        return scn(ctx)

    _reset_library_globals()
    # exceptions that the standard library swallows (and logs) when a done-callback raises: recorded when
    # they were raised by library code (innermost frame outside the standard library is a library file)
    import concurrent.futures._base as _cfb
    cb_errors = []
    _orig_exception = _cfb.LOGGER.exception

    def _record(msg, *a, **kw):
        et, ev_, tb = sys.exc_info()
        if ev_ is not None and isinstance(ev_, Exception):
            inner = None
            t = tb
            while t is not None:
                fn_ = t.tb_frame.f_code.co_filename
                if "/lib/python3" not in fn_ and "<frozen" not in fn_:
                    inner = (fn_, t.tb_lineno)
                t = t.tb_next
            if inner is not None and inner[0].startswith(sched._LIB_PREFIX):
                cb_errors.append("%s: %s at %s:%d" % (type(ev_).__name__, str(ev_)[:120], inner[0][len(sched._LIB_PREFIX):], inner[1]))
    _cfb.LOGGER.exception = _record
    try:
        ret, exc = sch.run(body)
    finally:
        sym.set_pm(None)
        _cfb.LOGGER.exception = _orig_exception
    if exc is not None:
        if isinstance(exc, Divergence):
            r.diverged = True
        elif isinstance(exc, Infeasible):
            r.infeasible = True
        elif isinstance(exc, CheckAbort):
            pass
        elif isinstance(exc, sched.DeadlockError):
            pass
        elif isinstance(exc, sched.StepLimit):
            pass
        else:
            r.error = "".join(traceback.format_exception(type(exc), exc, exc.__traceback__))[-3000:]
    if bounds.get("twin") and exc is None:
        # reachability twin: a final assertion that is false must come back violated
        ctx.results.append(("twin-end-reached", "refuted", pm.model_values(None), "the scenario ran to its end"))
    # implicit obligations
    if not r.diverged and not r.infeasible and r.error is None:
        if ctx.implicit_deadlock:
            ctx.results.append(("no-deadlock", "proved" if sch.deadlock is None else "refuted",
                                pm.model_values(None) if sch.deadlock is not None else None, sch.deadlock))
        if ctx.implicit_deaths:
            ctx.results.append(("no-library-exception-in-callback", "proved" if not cb_errors else "refuted",
                                pm.model_values(None) if cb_errors else None, "; ".join(cb_errors[:3]) or None))
            ctx.results.append(("no-thread-death", "proved" if not sch.deaths else "refuted",
                                pm.model_values(None) if sch.deaths else None,
                                "; ".join("%s: %s" % (d[0], d[1]) for d in sch.deaths) or None))
    r.ret = ret
    r.trace = pm.trace
    r.results = ctx.results
    r.reached = ctx.reached
    r.deaths = sch.deaths
    r.deadlock = sch.deadlock
    r.aborted = sch.aborted
    r.points = sch.points
    r.steps = sch.steps
    r.solver_s = pm.solver_s
    r.solver_calls = pm.solver_calls
    r.unknowns = pm.unknowns
    r.stuck = sch.stuck
    r.sym_branches = pm.sym_branches
    r.concretised = pm.concretised
    r.nthreads = len(sch.threads)
    r.funcs = funcs
    r.log = ctx.ev.dump() if want_log else None
    r.smt = ctx.smt_samples
    r.ltrace = sch.lock_events
    return r


def _reset_library_globals():
    """Module-level state of the library that must not leak between executions."""
    sched.reset_global_locks()
    m = sys.modules.get("more_executors._impl.futures.timeout")
    if m is not None and hasattr(m, "EXECUTOR_REF"):
        m.EXECUTOR_REF = None
    m = sys.modules.get("more_executors._impl.event")
    h = getattr(m, "GLOBAL_HANDLER", None) if m is not None else None
    if h is not None and hasattr(h, "events") and hasattr(h, "shutdown"):
        h.shutdown = False
        h.events = []
    for hook in _reset_hooks:
        hook()


_reset_hooks = []


def _make_line_tracer(sch, files):
    libp = sched._LIB_PREFIX
    want = tuple(files)

    def local(frame, ev, arg):
        if ev == "line" and sch.mode == sched.RUN:
            me = sch.by_ident.get(sched._get_ident())
            if me is not None and me.pending is None:
                sch.op_point(me)
        return local

    def tracer(frame, ev, arg):
        fn = frame.f_code.co_filename
        if fn.startswith(libp) and fn[len(libp):] in want:
            return local
        return None

    return tracer


def concrete_replay(scn, params, bounds, trace, model):
    """Re-execute with concrete values from the model and the same schedule/choice
    decisions (symbolic-branch decisions disappear: comparisons are concrete)."""
    dec = [d.chosen for d in trace if d.kind != "b"]
    conc = {}
    from fractions import Fraction

    for k, v in (model or {}).items():
        try:
            conc[k] = Fraction(v)
        except (ValueError, ZeroDivisionError):
            conc[k] = 0
    b = dict(bounds)
    return run_one(scn, params, b, dec, concrete=_Defaulting(conc), want_log=True)


class _Defaulting(dict):
    """Concrete model; variables the model did not mention default to small values."""

    def __missing__(self, k):
        from fractions import Fraction

        if k == "eps" or k.startswith("delta"):
            return Fraction(1, 1024)
        return Fraction(0)

    def __contains__(self, k):
        return True


def load_scenario(harness, name):
    mod = importlib.import_module("vf.harness." + harness)
    return getattr(mod, "scn_" + name)


def explore(item):
    """Explore (part of) the decision tree of one scenario.  item: dict (see pool.py)."""
    scn = load_scenario(item["harness"], item["scenario"])
    params = item.get("params", {})
    bounds = item.get("bounds", {})
    stack = [(list(p[0]), p[1]) if (len(p) == 2 and isinstance(p[0], list)) else (list(p), 0)
             for p in item.get("prefixes", [[]])]
    budget = item.get("budget", 50)
    tbudget = item.get("time_budget", 20.0)
    out = {
        "id": item.get("id"), "paths": 0, "obligations": 0, "discharged": 0, "inconclusive": 0,
        "violations": [], "reach": {}, "states": 0, "transitions": 0, "solver_s": 0.0,
        "solver_calls": 0, "divergences": 0, "infeasible": 0, "errors": [], "samples": [],
        "funcs": [], "leftover": [], "sym_branches": 0, "stuck": 0, "concretised": 0,
        "step_limits": 0, "labels": {}, "max_preempt": 0, "smt": [],
    }
    t0 = _clock()
    funcs = set()
    n = 0
    seen_viol = set()
    lseen = set()
    while stack and n < budget and (_clock() - t0) < tbudget:
        prefix, _pre = stack.pop()
        cov = item.get("cov", False) and n == 0
        r = run_one(scn, params, bounds, prefix, cov=cov, smt_budget=(1 if (n % 97 == 3 and len(out["smt"]) < 2) else 0))
        n += 1
        if r.smt:
            out["smt"].extend(r.smt[:1])
        if n % 64 == 0:
            gc.collect()
        if r.funcs:
            funcs |= r.funcs
        out["states"] += len(r.trace)
        out["transitions"] += r.steps
        out["solver_s"] += r.solver_s
        out["solver_calls"] += r.solver_calls
        out["sym_branches"] += r.sym_branches
        out["stuck"] += r.stuck
        if r.diverged:
            out["divergences"] += 1
            if len(out["errors"]) < 3 and os.environ.get("VERIF_DEBUG_DIVERGE"):
                out["errors"].append({"prefix": prefix, "error": "diverged"})
            continue
        if r.infeasible:
            out["infeasible"] += 1
            # children of an infeasible path are still valid prefixes up to the abort point
        if r.error:
            out["errors"].append({"prefix": prefix[:50], "error": r.error})
            continue
        if r.aborted == "step-limit":
            out["step_limits"] += 1
        if r.concretised:
            out["concretised"] += 1
        out["paths"] += 1
        dec = [d.chosen for d in r.trace]
        # children
        lp = len(prefix)
        for i in range(len(r.trace) - 1, lp - 1, -1):
            d = r.trace[i]
            for (a, cost) in d.alts:
                stack.append((dec[:i] + [a], d.pre + cost))
        if r.trace:
            out["max_preempt"] = max(out["max_preempt"], r.trace[-1].pre)
        for k, v in r.reached.items():
            out["reach"][k] = out["reach"].get(k, 0) + v
        for (label, st, model, info) in r.results:
            out["obligations"] += 1
            lab = out["labels"].setdefault(label, [0, 0, 0])
            if st == "proved":
                out["discharged"] += 1
                lab[0] += 1
            elif st == "unknown":
                out["inconclusive"] += 1
                lab[2] += 1
            else:
                lab[1] += 1
                key = (label, str(info)[:80])
                if key in seen_viol and len(out["violations"]) >= 8:
                    continue
                seen_viol.add(key)
                # replay concretely before reporting
                rr = concrete_replay(scn, params, bounds, r.trace, model)
                n_same = [x for x in rr.results if x[0] == label and x[1] == "refuted"]
                confirmed = bool(n_same) and not rr.diverged and rr.error is None
                out["violations"].append({
                    "label": label, "info": info if info is None else str(info)[:500],
                    "model": model, "confirmed": confirmed,
                    "decisions": [[d.kind, d.chosen] for d in r.trace],
                    "replay_error": rr.error, "replay_diverged": rr.diverged,
                    "replay_info": (str(n_same[0][3])[:500] if n_same else None),
                    "log": rr.log,
                })
        if bounds.get("lpredict") and r.ltrace and sch_deadlock_free(r):
            _lpredict(scn, params, bounds, prefix, r, out, lseen)
        if len(out["samples"]) < 2:
            out["samples"].append({
                "decisions": dec[:60], "n_decisions": len(dec), "threads": r.nthreads,
                "sched_points": r.points,
                "obligations": [[l, s] for (l, s, _m, _i) in r.results][:12],
            })
    out["leftover"] = stack
    out["funcs"] = sorted(funcs)
    out["wall"] = _clock() - t0
    return out


def sch_deadlock_free(r):
    return r.deadlock is None and not r.aborted


def _lpredict(scn, params, bounds, prefix, r, out, lseen):
    """Engine L on the lock trace of one deadlock-free execution: SMT decides every new lock-order
    cycle; a `sat` order is followed on the real code as a directed schedule."""
    from . import lockpredict
    st = out.setdefault("lpredict", {"cycles": 0, "unsat": 0, "sat": 0, "unknown": 0, "confirmed": 0, "not_reproduced": 0})
    dec = [d.chosen for d in r.trace]
    for c in lockpredict.predict(r.ltrace, lseen):
        st["cycles"] += 1
        st[c["verdict"]] += 1
        out["obligations"] += 1
        if c["verdict"] == "unsat":
            out["discharged"] += 1
            continue
        if c["verdict"] != "sat":
            out["inconclusive"] += 1
            continue
        # directed replay: same choices/branches as the traced execution where they still apply
        b = dict(bounds)
        b["P"] = 10 ** 6
        rr = run_one(scn, params, b, [d.chosen for d in r.trace if d.kind == "c"][:0], directive=c["order"])
        bad = [x for x in rr.results if x[1] == "refuted"]
        if rr.deadlock is not None or bad:
            st["confirmed"] += 1
            lab = "no-deadlock" if rr.deadlock is not None else bad[0][0]
            out["violations"].append({
                "label": lab, "info": "predicted from lock-order cycle %s: %s" % (c["cycle"], rr.deadlock or bad[0][3]),
                "model": {}, "confirmed": True, "decisions": [[d.kind, d.chosen] for d in rr.trace],
                "replay_error": None, "replay_diverged": False, "replay_info": rr.deadlock, "log": None,
                "replay_bounds": {"P": 10 ** 6},
            })
            out["labels"].setdefault(lab, [0, 0, 0])[1] += 1
        else:
            st["not_reproduced"] += 1
            out["inconclusive_cycles"] = out.get("inconclusive_cycles", []) + [list(map(str, c["cycle"]))]
            out["discharged"] += 1  # the predicted order could not be followed to a deadlock on the real code


def worker_main():
    """Persistent worker: JSON lines on stdin/stdout."""
    sched.install()
    import concurrent.futures  # noqa
    repo = os.environ.get("VERIF_REPO", "/repo")
    if repo not in sys.path:
        sys.path.insert(0, repo)
    extra = os.environ.get("VERIF_EXTRA_PATH")
    if extra:
        sys.path.insert(0, extra)
    import more_executors  # noqa
    import more_executors._impl.futures  # noqa

    real_out = os.fdopen(os.dup(1), "w")
    devnull = os.open(os.devnull, os.O_WRONLY)
    os.dup2(devnull, 1)
    if not os.environ.get("VERIF_WORKER_STDERR"):
        os.dup2(devnull, 2)
    sys.stdout = open(os.devnull, "w")
    gc.disable()
    for line in sys.stdin:
        line = line.strip()
        if not line:
            continue
        item = json.loads(line)
        if item.get("cmd") == "quit":
            break
        try:
            res = explore(item)
        except BaseException as e:  # noqa
            res = {"id": item.get("id"), "fatal": "".join(traceback.format_exception(type(e), e, e.__traceback__))[-4000:]}
        real_out.write(json.dumps(res, default=str) + "\n")
        real_out.flush()
        gc.collect()
        if res.get("stuck"):
            break  # dirty process: let the master restart us
    real_out.flush()
    os._exit(0)


if __name__ == "__main__":
    worker_main()
