"""Concrete replay of a recorded counterexample: python -m vf.engine.replay <file.json>
exit 1 = the violation reproduces on the current tree, 0 = it does not, 2 = error."""
import json
import os
import sys


def main():
    path = sys.argv[1]
    with open(path) as f:
        rec = json.load(f)
    if rec.get("engine") == "X":
        from vf.engine import xhair
        return xhair.replay(rec)
    from vf.engine import sched
    sched.install()
    repo = os.environ.get("VERIF_REPO", "/repo")
    sys.path.insert(0, repo)
    extra = os.environ.get("VERIF_EXTRA_PATH")
    if extra:
        sys.path.insert(0, extra)
    import more_executors  # noqa
    import more_executors._impl.futures  # noqa
    from vf.engine import explore
    from vf.engine.sym import Decision

    scn = explore.load_scenario(rec["harness"], rec["scenario"])
    trace = [Decision(k, c, (), "", 0, 0) for (k, c) in rec["decisions"]]
    r = explore.concrete_replay(scn, rec["params"], rec["bounds"], trace, rec.get("model") or {})
    for l in (r.log or [])[:300]:
        print(l)
    print("model:", json.dumps(rec.get("model")))
    if r.error:
        print("replay error:\n" + r.error)
        return 2
    if r.diverged:
        print("replay diverged (the recorded schedule is not executable on this tree)")
        return 0
    bad = [x for x in r.results if x[1] == "refuted"]
    for (label, st, model, info) in r.results:
        print("  %-40s %s %s" % (label, st, "" if st == "proved" else info))
    same = [x for x in bad if x[0] == rec["label"]]
    if same:
        print("REPRODUCED %s: %s" % (rec["key"], same[0][3]))
        return 1
    print("not reproduced")
    return 0


if __name__ == "__main__":
    rc = main()
    sys.stdout.flush()
    os._exit(rc)
