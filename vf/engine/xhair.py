"""Engine X: CrossHair contracts over the real public API (single-threaded, symbolic inputs).

A contract is a module-level function in vf/contracts/<file>.py whose docstring carries
PEP-316 `pre:` lines and `post: __return__`; it returns True iff the property holds for its
arguments.  Each contract is checked by `crosshair check --report_all` in its own process.
A counterexample is replayed in plain CPython before it counts; a non-reproducing one is a
model artefact of the tool and is reported as inconclusive."""
from __future__ import annotations

import ast
import importlib
import json
import os
import re
import subprocess
import sys
import time

ROOT = os.path.dirname(os.path.dirname(os.path.dirname(os.path.abspath(__file__))))
CROSSHAIR = os.path.join(os.path.dirname(sys.executable), "crosshair")


def _env():
    env = dict(os.environ)
    repo = env.get("VERIF_REPO", "/repo")
    env["PYTHONPATH"] = os.pathsep.join([repo, ROOT, env.get("PYTHONPATH", "")])
    env["PYTHONDONTWRITEBYTECODE"] = "1"
    env["MORE_EXECUTORS_PROMETHEUS"] = "0"
    return env


def _func_lines(path):
    with open(path) as f:
        tree = ast.parse(f.read())
    out = {}
    for node in tree.body:
        if isinstance(node, ast.FunctionDef):
            out[node.name] = node.lineno
    return out


class Run(object):
    def __init__(self, specs, max_parallel):
        self.specs = specs
        self.max_parallel = max_parallel
        self.t0 = time.monotonic()
        self.pending = list(specs)
        self.running = []
        self.done = []
        self._pump()

    def _launch(self, sp):
        cmd = [CROSSHAIR, "check", "--report_all", "--analysis_kind=PEP316",
               "--per_condition_timeout", str(sp["timeout"]), "--per_path_timeout", str(sp.get("path_timeout", sp["timeout"])),
               "%s:%d" % (sp["path"], sp["line"])]
        p = subprocess.Popen(cmd, stdout=subprocess.PIPE, stderr=subprocess.STDOUT, text=True, env=_env(), cwd=ROOT)
        sp["proc"] = p
        sp["started"] = time.monotonic()
        self.running.append(sp)

    def _pump(self):
        still = []
        for sp in self.running:
            p = sp["proc"]
            if p.poll() is None:
                if time.monotonic() - sp["started"] > sp["timeout"] * 3 + 60:
                    p.kill()
                    sp["out"] = "KILLED (wall timeout)"
                    sp["wall"] = time.monotonic() - sp["started"]
                    self.done.append(sp)
                else:
                    still.append(sp)
            else:
                sp["out"] = p.stdout.read()
                sp["wall"] = time.monotonic() - sp["started"]
                self.done.append(sp)
        self.running = still
        while self.pending and len(self.running) < self.max_parallel:
            self._launch(self.pending.pop(0))

    def finish(self):
        while self.running or self.pending:
            self._pump()
            time.sleep(0.2)
        return summarize(self.done, time.monotonic() - self.t0)


def start(mod, tier, seed, max_parallel=None):
    specs = []
    for c in mod.contracts(tier):
        path = os.path.join(ROOT, "vf", "contracts", c["file"])
        lines = _func_lines(path)
        names = c.get("funcs") or sorted(n for n in lines if n.startswith("c_"))
        for n in names:
            if n not in lines:
                continue
            specs.append(dict(name="%s:%s" % (c["file"][:-3], n), file=c["file"], func=n, path=path, line=lines[n] + 1,
                              timeout=c.get("timeout", 30)))
    if max_parallel is None:
        max_parallel = int(os.environ.get("VERIF_X_PARALLEL", "8"))
    return Run(specs, max_parallel)


_CE = re.compile(r"error: (.*?) when calling (\w+)\((.*?)\)\s*(\(which returns .*\))?\s*$")


def classify(out):
    """-> ('confirmed'|'refuted'|'unknown'|'precondition', detail)"""
    if "Confirmed over all paths" in out:
        return "confirmed", ""
    for line in out.splitlines():
        if ": error:" in line:
            return "refuted", line.strip()
    if "Unable to meet precondition" in out:
        return "precondition", out.strip()[-300:]
    return "unknown", out.strip()[-300:]


def replay_call(file, func, call_src):
    """Run contract `func` of vf/contracts/<file> in plain CPython with the printed arguments.
    Returns (reproduced: bool, detail)."""
    code = (
        "import sys, json\n"
        "sys.path.insert(0, %r)\n"
        "import importlib\n"
        "m = importlib.import_module('vf.contracts.%s')\n"
        "from math import inf, nan\n"
        "try:\n"
        "    r = eval('m.' + %r, dict(m=m, inf=inf, nan=nan, float=float))\n"
        "    print(json.dumps({'ret': bool(r), 'exc': None}))\n"
        "except BaseException as e:\n"
        "    print(json.dumps({'ret': None, 'exc': repr(e)}))\n"
    ) % (ROOT, file[:-3], call_src)
    p = subprocess.run([sys.executable, "-c", code], capture_output=True, text=True, env=_env(), cwd=ROOT, timeout=120)
    try:
        res = json.loads(p.stdout.strip().splitlines()[-1])
    except Exception:  # noqa
        return False, "replay failed: %s %s" % (p.stdout[-200:], p.stderr[-300:])
    if res["exc"] is not None:
        return True, "raises %s" % res["exc"]
    return (res["ret"] is False), "returns %s" % res["ret"]


def summarize(done, wall):
    cov = dict(conditions=len(done), confirmed=0, refuted=0, inconclusive=0, obligations=len(done), discharged=0,
               solver="crosshair 0.0.110 / z3", wall_s=round(wall, 1), per_condition=[])
    viol = []
    incon = []
    errors = []
    samples = []
    for sp in done:
        st, detail = classify(sp["out"])
        entry = dict(name=sp["name"], verdict=st, wall_s=round(sp["wall"], 1))
        if st == "confirmed":
            cov["confirmed"] += 1
            cov["discharged"] += 1
        elif st == "refuted":
            m = _CE.search(detail)
            call = None
            if m:
                call = "%s(%s)" % (m.group(2), m.group(3))
            if call is None:
                cov["inconclusive"] += 1
                incon.append("INCONCLUSIVE X %s: counterexample could not be parsed: %s" % (sp["name"], detail[:200]))
                entry["verdict"] = "unparsed"
            else:
                rep, info = replay_call(sp["file"], sp["func"], call)
                entry["counterexample"] = call
                if rep:
                    cov["refuted"] += 1
                    viol.append(dict(name=sp["name"], info="%s: %s" % (call, info), file=sp["file"], func=sp["func"], call=call))
                else:
                    cov["inconclusive"] += 1
                    entry["verdict"] = "model-artifact"
                    incon.append("INCONCLUSIVE X %s: CrossHair counterexample %s does not reproduce in CPython (%s)" % (sp["name"], call, info))
        else:
            cov["inconclusive"] += 1
            incon.append("INCONCLUSIVE X %s: %s" % (sp["name"], st if st != "unknown" else "not confirmed within %ss: %s" % (sp["timeout"], detail[-120:].replace("\n", " "))))
        cov["per_condition"].append(entry)
        if len(samples) < 2:
            samples.append(dict(engine="X", contract=sp["name"], verdict=entry["verdict"]))
    return dict(coverage=cov, violations=viol, inconclusive_lines=incon, errors=errors, samples=samples)


def replay(rec):
    if rec.get("enumeration"):
        p = subprocess.run([sys.executable, "-m", rec["enumeration"]], capture_output=True, text=True, env=_env(), cwd=ROOT, timeout=600)
        res = json.loads(p.stdout.strip().splitlines()[-1])
        hit = [v for v in res["violations"] if "T:" + v["name"] == rec["name"]]
        if hit:
            print("REPRODUCED %s: %s" % (rec["key"], hit[0]["info"]))
            return 1
        print("not reproduced")
        return 0
    rep, info = replay_call(rec["file"], rec["func"], rec["call"])
    print("%s: %s" % (rec["call"], info))
    if rep:
        print("REPRODUCED %s" % rec["key"])
        return 1
    print("not reproduced")
    return 0
