"""In-process driver for debugging: python -m vf.engine.debug <harness> <scenario> '<params json>' '<bounds json>' [max_paths]"""
import json, os, sys, time

def main():
    from vf.engine import sched
    sched.install()
    repo = os.environ.get("VERIF_REPO", "/repo")
    sys.path.insert(0, repo)
    import more_executors, more_executors._impl.futures  # noqa
    from vf.engine import explore
    h, s = sys.argv[1], sys.argv[2]
    params = json.loads(sys.argv[3]) if len(sys.argv) > 3 else {}
    bounds = json.loads(sys.argv[4]) if len(sys.argv) > 4 else {}
    maxp = int(sys.argv[5]) if len(sys.argv) > 5 else 100000
    t0 = time.perf_counter()
    item = dict(harness=h, scenario=s, params=params, bounds=bounds, prefixes=[[]], budget=maxp, time_budget=3600, cov=True)
    out = explore.explore(item)
    out["leftover"] = len(out["leftover"])
    v = out.pop("violations")
    f = out.pop("funcs")
    print(json.dumps(out, indent=1, default=str))
    for x in v[:6]:
        x = dict(x); x["decisions"] = len(x["decisions"]); lg = x.pop("log", None) or []
        print("\n".join(lg[:80]))
        print("VIOL", json.dumps(x, default=str)[:1500])
    print("funcs", len(f))
    print("wall %.2fs" % (time.perf_counter() - t0))
    sys.stdout.flush()
    os._exit(0)

main()
