"""Master side of engine S: a pool of persistent worker processes exploring decision
sub-trees; work is split by handing unexplored prefixes back to the master."""
from __future__ import annotations

import json
import os
import selectors
import subprocess
import sys
import time

VENV_PY = sys.executable


class Worker(object):
    def __init__(self, env):
        self.p = subprocess.Popen(
            [VENV_PY, "-m", "vf.engine.explore"], stdin=subprocess.PIPE, stdout=subprocess.PIPE,
            env=env, cwd=os.path.dirname(os.path.dirname(os.path.dirname(os.path.abspath(__file__)))),
            text=True, bufsize=1)
        self.busy = None
        self.sent_at = None

    def send(self, unit):
        self.busy = unit
        self.sent_at = time.monotonic()
        self.p.stdin.write(json.dumps(unit) + "\n")
        self.p.stdin.flush()

    def kill(self):
        try:
            self.p.kill()
        except Exception:
            pass


def _empty_agg(item):
    return {
        "scenario": item["scenario"], "params": item.get("params", {}), "bounds": item.get("bounds", {}),
        "paths": 0, "obligations": 0, "discharged": 0, "inconclusive": 0, "violations": [],
        "reach": {}, "states": 0, "transitions": 0, "solver_s": 0.0, "solver_calls": 0,
        "divergences": 0, "infeasible": 0, "errors": [], "samples": [], "funcs": set(),
        "sym_branches": 0, "stuck": 0, "concretised": 0, "step_limits": 0, "labels": {},
        "unexplored": 0, "exhaustive": True, "max_preempt": 0, "fatal": [], "smt": [],
    }


def _merge(agg, res):
    for k in ("paths", "obligations", "discharged", "inconclusive", "states", "transitions",
              "solver_calls", "divergences", "infeasible", "sym_branches", "stuck", "concretised",
              "step_limits"):
        agg[k] += res.get(k, 0)
    agg["solver_s"] += res.get("solver_s", 0.0)
    agg["max_preempt"] = max(agg["max_preempt"], res.get("max_preempt", 0))
    for k, v in res.get("reach", {}).items():
        agg["reach"][k] = agg["reach"].get(k, 0) + v
    for k, v in res.get("labels", {}).items():
        l = agg["labels"].setdefault(k, [0, 0, 0])
        for i in range(3):
            l[i] += v[i]
    if len(agg["violations"]) < 40:
        agg["violations"].extend(res.get("violations", [])[: 40 - len(agg["violations"])])
    if len(agg["errors"]) < 10:
        agg["errors"].extend(res.get("errors", [])[:3])
    if len(agg["samples"]) < 3:
        agg["samples"].extend(res.get("samples", [])[:1])
    agg["funcs"].update(res.get("funcs", []))
    if res.get("inconclusive_cycles"):
        agg.setdefault("inconclusive_cycles", [])
        for c in res["inconclusive_cycles"]:
            if c not in agg["inconclusive_cycles"] and len(agg["inconclusive_cycles"]) < 10:
                agg["inconclusive_cycles"].append(c)
    if "lpredict" in res:
        lp = agg.setdefault("lpredict", {})
        for k, v in res["lpredict"].items():
            lp[k] = lp.get(k, 0) + v
    if len(agg["smt"]) < 6:
        agg["smt"].extend(res.get("smt", [])[:2])


def run_plan(harness, items, nworkers=None, time_budget=60.0, max_paths=None, env=None, progress=None):
    """Explore every plan item's decision tree.  Returns list of aggregates (one per item)."""
    nworkers = nworkers or min(16, os.cpu_count() or 4)
    wenv = dict(os.environ)
    if env:
        wenv.update(env)
    wenv.setdefault("PYTHONHASHSEED", "0")
    wenv["PYTHONDONTWRITEBYTECODE"] = "1"
    root = os.path.dirname(os.path.dirname(os.path.dirname(os.path.abspath(__file__))))
    wenv["PYTHONPATH"] = root + os.pathsep + wenv.get("PYTHONPATH", "")
    aggs = [_empty_agg(it) for it in items]
    queue = []
    uid = [0]

    def mk_unit(idx, prefixes, budget, tb):
        uid[0] += 1
        it = items[idx]
        return {"id": uid[0], "idx": idx, "harness": harness, "scenario": it["scenario"],
                "params": it.get("params", {}), "bounds": it.get("bounds", {}),
                "prefixes": prefixes, "budget": budget, "time_budget": tb,
                "cov": len(prefixes) == 1 and prefixes[0] in ([], [[], 0]),
                "prio": min((p[1] if (len(p) == 2 and isinstance(p[0], list)) else 0) for p in prefixes)}

    for i in range(len(items)):
        queue.append(mk_unit(i, [[]], 6, 5.0))
    workers = [Worker(wenv) for _ in range(min(nworkers, max(1, len(items) * 4)))]
    all_workers = list(workers)
    sel = selectors.DefaultSelector()
    for w in workers:
        sel.register(w.p.stdout, selectors.EVENT_READ, w)
    t0 = time.monotonic()
    total_paths = 0
    out_of_budget = False
    while True:
        now = time.monotonic()
        if now - t0 > time_budget or (max_paths and total_paths >= max_paths):
            out_of_budget = True
        idle = [w for w in workers if w.busy is None]
        if not out_of_budget:
            # grow pool lazily
            while queue and not idle and len(workers) < nworkers:
                w = Worker(wenv)
                workers.append(w)
                all_workers.append(w)
                sel.register(w.p.stdout, selectors.EVENT_READ, w)
                idle.append(w)
            if queue and idle:
                queue.sort(key=lambda u: u["prio"])  # lower preemption counts first
            while queue and idle:
                w = idle.pop()
                w.send(queue.pop(0))
        busy = [w for w in workers if w.busy is not None]
        if not busy:
            break
        evs = sel.select(timeout=1.0)
        for key, _ in evs:
            w = key.data
            line = w.p.stdout.readline()
            if not line:
                # worker died
                unit = w.busy
                w.busy = None
                sel.unregister(w.p.stdout)
                workers.remove(w)
                if unit is not None:
                    aggs[unit["idx"]]["fatal"].append("worker died on unit %s" % unit["id"])
                    aggs[unit["idx"]]["exhaustive"] = False
                if not out_of_budget:
                    nw = Worker(wenv)
                    workers.append(nw)
                    all_workers.append(nw)
                    sel.register(nw.p.stdout, selectors.EVENT_READ, nw)
                continue
            unit = w.busy
            w.busy = None
            try:
                res = json.loads(line)
            except ValueError:
                aggs[unit["idx"]]["fatal"].append("bad worker output: %r" % line[:200])
                continue
            agg = aggs[unit["idx"]]
            if "fatal" in res:
                agg["fatal"].append(res["fatal"])
                agg["exhaustive"] = False
                continue
            _merge(agg, res)
            total_paths += res.get("paths", 0)
            left = res.get("leftover", [])
            cap = items[unit["idx"]].get("bounds", {}).get("max_paths")
            if left and cap and agg.get("paths", 0) >= cap:
                # this item has had its share: what is left of it stays unexplored (reported as such)
                agg["unexplored"] += len(left)
                agg["exhaustive"] = False
                lo = agg.setdefault("unexplored_min_preemptions", 99)
                agg["unexplored_min_preemptions"] = min(lo, min(p[1] for p in left))
                left = []
            if left:
                # split leftovers: many small units while workers are idle
                nidle = sum(1 for x in workers if x.busy is None) + (nworkers - len(workers))
                left.sort(key=lambda p: p[1])
                chunk = max(1, min(16, len(left) // max(1, nidle + 1)))
                for i in range(0, len(left), chunk):
                    queue.append(mk_unit(unit["idx"], left[i:i + chunk], 60, 6.0))
            if res.get("stuck"):
                # the worker exits by itself after a stuck teardown
                pass
        # stuck worker watchdog
        for w in list(workers):
            if w.busy is not None and time.monotonic() - w.sent_at > 120:
                unit = w.busy
                aggs[unit["idx"]]["fatal"].append("worker timeout on unit %s (prefixes %d)" % (unit["id"], len(unit["prefixes"])))
                aggs[unit["idx"]]["exhaustive"] = False
                w.busy = None
                sel.unregister(w.p.stdout)
                workers.remove(w)
                w.kill()
        if progress and evs:
            progress(total_paths, len(queue))
    # whatever is still queued was not explored
    for u in queue:
        aggs[u["idx"]]["unexplored"] += len(u["prefixes"])
        aggs[u["idx"]]["exhaustive"] = False
        lo = aggs[u["idx"]].setdefault("unexplored_min_preemptions", 99)
        aggs[u["idx"]]["unexplored_min_preemptions"] = min(lo, u["prio"])
    for w in all_workers:
        try:
            if w.p.poll() is None:
                w.p.stdin.write(json.dumps({"cmd": "quit"}) + "\n")
                w.p.stdin.flush()
        except Exception:
            pass
    t_end = time.monotonic() + 3
    for w in all_workers:
        try:
            w.p.wait(timeout=max(0.1, t_end - time.monotonic()))
        except Exception:
            w.kill()
    for a in aggs:
        a["funcs"] = sorted(a["funcs"])
        if a["divergences"] or a["step_limits"] or a["errors"] or a["fatal"]:
            a["exhaustive"] = False
    return aggs
