import sys, os; sys.path.insert(0, os.getcwd())
"""
C18 / C03 violation: a callable that raises a BaseException which is not an
Exception (sys.exit() -> SystemExit being the everyday case) silently kills the
worker thread of a RetryExecutor / ThrottleExecutor stacked on a SyncExecutor.
Its own future and every future submitted afterwards stay pending for ever.

 - SyncExecutor.submit() catches `Exception` only, so SystemExit propagates out
   of delegate.submit().
 - RetryExecutor._submit_now() / ThrottleExecutor._do_submit() guard the call
   with `except Exception` too, so it propagates out of the thread's main loop.
   (threading swallows SystemExit without any message.)  In the retry case the
   job has already been popped, so the future is not even in the table any more.

For comparison the same callable on thread_pool().with_retry() gives a future
that fails with SystemExit(3) (concurrent.futures catches BaseException), and
the executor keeps working - that is what C01/C18 ask for at every stack.

Deterministic, no race: submit, wait, probe with a fresh submission.
"""
import logging
import threading

logging.basicConfig(level=logging.CRITICAL)

from more_executors import Executors

WAIT = 5.0
failures = []

stacks = [
    ("sync().with_retry()", lambda: Executors.sync().with_retry(max_attempts=1)),
    ("sync().with_throttle(2)", lambda: Executors.sync().with_throttle(2)),
    (
        "sync().with_map(f).with_throttle(2).with_retry()",
        lambda: Executors.sync()
        .with_map(lambda x: x)
        .with_throttle(2)
        .with_retry(max_attempts=1),
    ),
]

for name, make in stacks:
    executor = make()
    threads_before = [
        t for t in threading.enumerate() if "Executor-" in t.name and t.is_alive()
    ]

    future = executor.submit(sys.exit, 3)
    try:
        exc = future.exception(WAIT)
        own = "failed with %r" % (exc,)
        own_ok = isinstance(exc, SystemExit)
    except Exception as err:  # pylint: disable=broad-except
        own = "still pending after %.0fs (%s)" % (WAIT, type(err).__name__)
        own_ok = False

    probe = executor.submit(lambda: "alive")
    try:
        probe_ok = probe.result(WAIT) == "alive"
        probe_txt = "ok"
    except Exception as err:  # pylint: disable=broad-except
        probe_ok = False
        probe_txt = "still pending after %.0fs (%s)" % (WAIT, type(err).__name__)

    dead = [t.name for t in threads_before if not t.is_alive()]

    if not (own_ok and probe_ok):
        failures.append(
            "%s: future of the sys.exit() callable %s; fresh submission %s; "
            "worker threads that died: %r" % (name, own, probe_txt, dead)
        )

if failures:
    print("C18/C03 VIOLATED (faults in user code stay with their own future):")
    for line in failures:
        print("  - " + line)
    print(
        "Correct behaviour (as with a thread pool base): the future fails with the "
        "SystemExit object, the worker thread survives, later submissions are served."
    )
    sys.stdout.flush()
    os._exit(1)

print("OK")
