import sys, os; sys.path.insert(0, os.getcwd())
"""
C05 violation: ExceptionRetryPolicy stops retrying at attempt 1025 (exponent 2.0,
the default) although max_attempts has not been reached.

ExceptionRetryPolicy.sleep_time() computes  sleep * exponent ** (attempt - 1)
BEFORE applying max_sleep.  For attempt >= 1025 (exponent=2.0; attempt >= 310 for
exponent=10.0) the float power raises OverflowError.  eval_policy() treats an
exception from the policy as "do not retry", so the future is resolved with the
1025th failure although the policy was configured with max_attempts=1500 and the
documented delay  min(sleep*exponent^(k-1), max_sleep)  is perfectly finite
(here: 0).

Deterministic: SyncExecutor base, zero sleep, a callable that always fails.
"""
import logging

logging.basicConfig(level=logging.CRITICAL)

from more_executors import Executors
from more_executors.retry import ExceptionRetryPolicy

MAX_ATTEMPTS = 1500
failures = []

# 1. the policy method itself: documented value is min(0.001 * 2**1024, 0.01) = 0.01
policy = ExceptionRetryPolicy(
    max_attempts=MAX_ATTEMPTS, sleep=0.001, exponent=2.0, max_sleep=0.01
)
try:
    value = policy.sleep_time(1025, None)
    if value != 0.01:
        failures.append("sleep_time(1025) = %r, expected 0.01" % (value,))
except Exception as exc:  # pylint: disable=broad-except
    failures.append(
        "sleep_time(1025) raised %r, expected min(sleep*exponent^(k-1), max_sleep) = 0.01"
        % (exc,)
    )

# 2. end to end: the callable must run exactly max_attempts times
calls = []


def always_fails():
    calls.append(1)
    raise ValueError("attempt %d" % len(calls))


executor = Executors.sync().with_retry(
    max_attempts=MAX_ATTEMPTS, sleep=0.0, exponent=2.0, max_sleep=0.0
)
future = executor.submit(always_fails)
exc = future.exception(timeout=300)
executor.shutdown(wait=True)

if len(calls) != MAX_ATTEMPTS:
    failures.append(
        "callable ran %d times, expected exactly max_attempts=%d (last error: %r)"
        % (len(calls), MAX_ATTEMPTS, exc)
    )

if failures:
    print("C05 VIOLATED (retry: exact attempt accounting / exact back-off):")
    for line in failures:
        print("  - " + line)
    print(
        "Correct behaviour: retry until max_attempts with delay "
        "min(sleep*exponent^(k-1), max_sleep); the cap must be applied without overflowing."
    )
    sys.exit(1)

print("OK: %d attempts" % len(calls))
