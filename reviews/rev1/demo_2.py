import sys, os; sys.path.insert(0, os.getcwd())
"""
C02 / C06 violation: RetryFuture.cancel() raises AssertionError("Cancel called on
orphan ...") when it is issued while the job is being handed to the delegate.

RetryExecutor._submit_now() pops the job from self._jobs and only re-adds a job
once the delegate accepted the callable.  There are two moments at which the
future is still pending but has NO entry in self._jobs, so that
RetryExecutor._cancel() trips over `assert found_job`:

 Variant A (no threads racing, fully deterministic):
   the delegate runs the callable synchronously inside delegate.submit()
   (SyncExecutor, or any stack ending in it).  While the callable runs, the job
   has been popped and the new one is not appended yet.  A cancel() issued from
   the callable (same thread -> the RLocks are re-entrant) raises.
   Correct: the callable is running, so cancel() must return False.

 Variant B (another thread, forced with a line trace hook):
   the delegate refuses the callable (here: a thread pool that has been shut
   down).  _submit_now() leaves the `with` blocks with the job popped, and only
   afterwards calls copy_exception(job.future, ...).  A cancel() from any other
   thread in that window raises.
   Correct: cancel() returns True (future cancelled) or False (future then fails
   with the delegate's RuntimeError) - it must never raise.
"""
import threading
import logging
import linecache
from concurrent.futures import ThreadPoolExecutor

logging.basicConfig(level=logging.CRITICAL)

from more_executors import Executors, RetryExecutor

failures = []

# ---------------------------------------------------------------- variant A
executor = Executors.sync().with_retry(max_attempts=1)
holder = {}
have_future = threading.Event()
seen = []


def cancels_itself():
    have_future.wait(60)
    try:
        seen.append(("returned", holder["future"].cancel()))
    except BaseException as exc:  # pylint: disable=broad-except
        seen.append(("raised", exc))
    return "value"


holder["future"] = executor.submit(cancels_itself)
have_future.set()
result = holder["future"].result(60)
executor.shutdown(wait=True)

if seen != [("returned", False)] or result != "value":
    failures.append(
        "variant A: cancel() issued while the callable runs (sync delegate): %r; "
        "expected it to return False" % (seen,)
    )

# ---------------------------------------------------------------- variant B
pool = ThreadPoolExecutor(1)
pool.shutdown()  # from now on pool.submit() raises RuntimeError

at_window = threading.Event()
resume = threading.Event()
code = RetryExecutor._submit_now.__code__


def tracer(frame, event, arg):
    # Installed for the retry executor's submit thread only.
    if frame.f_code is not code:
        return None

    def local(frame, event, arg):
        if event == "line" and not at_window.is_set():
            src = linecache.getline(code.co_filename, frame.f_lineno).strip()
            # First statement after both `with` blocks (locks released, job
            # popped, future not yet failed).
            if src.startswith("if refused is not None") and frame.f_locals.get(
                "refused"
            ):
                at_window.set()
                resume.wait(60)
        return local

    return local


threading.settrace(tracer)
executor = RetryExecutor(pool, max_attempts=1)  # its thread inherits the tracer
threading.settrace(None)

future = executor.submit(lambda: 1)
if not at_window.wait(60):
    print("demo could not reach the window (code changed?)")
    resume.set()
else:
    try:
        outcome = ("returned", future.cancel())
    except BaseException as exc:  # pylint: disable=broad-except
        outcome = ("raised", exc)
    resume.set()
    if outcome[0] != "returned" or not isinstance(outcome[1], bool):
        failures.append(
            "variant B: cancel() from another thread while the delegate refused the "
            "callable: %r; expected a bool" % (outcome,)
        )

if failures:
    print("C02/C06 VIOLATED (cancel() returns a bool and never raises):")
    for line in failures:
        print("  - " + line)
    sys.exit(1)

print("OK")
