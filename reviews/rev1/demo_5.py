import sys, os; sys.path.insert(0, os.getcwd())
"""
C04 (and C01 "all numbers of concurrent submitter threads") violation:
SyncExecutor runs the user's callable while holding its shutdown lock, so two
threads can never be inside submit() at the same time.  Two submitters whose
callables rendezvous (producer / consumer, barrier, ...) block each other for
ever, although each callable is documented to be "immediately invoked" on
the calling thread, i.e. to behave like a plain call.

SyncExecutor.submit():
    with self._shutdown.ensure_alive():      # holds ShutdownHelper._lock ...
        ...
        result = fn(*args, **kwargs)         # ... while user code runs

The same lock also makes shutdown() from another thread wait for the callable.
Every layer on top (with_map, with_timeout, with_poll, with_cancel_on_shutdown)
holds its own ShutdownHelper lock around delegate.submit() too, so the
serialisation propagates up a sync-based stack.

Schedule (forced with an event):
  thread 1: sync.submit(consumer)  - consumer signals it is running, then waits
            for an item on a queue
  main    : sync.submit(queue.put, item)  - after the consumer is running
Correct: put runs at once on the main thread, the consumer gets the item.
Actual: main blocks in submit() until the consumer gives up.
(The consumer's wait is bounded here only to let the demo terminate; with an
unbounded q.get() both threads hang for ever.)
"""
import threading
import logging
import time
import queue

logging.basicConfig(level=logging.CRITICAL)

from more_executors import Executors

CONSUMER_PATIENCE = 8.0

executor = Executors.sync()
items = queue.Queue()
consumer_running = threading.Event()
out = {}


def consumer():
    consumer_running.set()
    return items.get(timeout=CONSUMER_PATIENCE)


def thread_1():
    out["consumer"] = executor.submit(consumer)


t1 = threading.Thread(target=thread_1)
t1.start()
assert consumer_running.wait(60)

started = time.time()
producer_future = executor.submit(items.put, "item")
producer_blocked_for = time.time() - started

t1.join(60)
consumer_exc = out["consumer"].exception(60)

if consumer_exc is not None or producer_blocked_for > CONSUMER_PATIENCE / 2:
    print("C04 VIOLATED (no deadlock among submit calls of different threads):")
    print(
        "  - submit(queue.put) on the SyncExecutor was blocked for %.1fs, i.e. until the "
        "consumer callable running in another thread's submit() gave up"
        % producer_blocked_for
    )
    print("  - consumer outcome: %r (expected result 'item')" % (consumer_exc,))
    print(
        "Correct behaviour: the shutdown lock guards the alive-check only; callables "
        "submitted from different threads run concurrently, like plain calls."
    )
    sys.exit(1)

print("OK", out["consumer"].result())
