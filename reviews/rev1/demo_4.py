import sys, os; sys.path.insert(0, os.getcwd())
"""
C09 / C18 violation: one future with a very large (or infinite) timeout kills
the TimeoutExecutor's worker thread; from then on NO future of that executor is
ever timed out.

TimeoutExecutor._job_loop() sleeps with event.wait(wait_time) where wait_time is
`earliest deadline - now`.  threading waits reject anything above
threading.TIMEOUT_MAX (about 292 years) with OverflowError, float('inf')
included.  The exception is not handled anywhere in the loop, so the thread
"TimeoutExecutor-<name>" dies.  submit()/submit_timeout() keep accepting
work and keep appending jobs that nobody looks at any more.

A per-call timeout of float('inf') ("this one call may take as long as it
likes") or of some huge number of seconds is a legal value of the `timeout`
parameter; every deadline computation with it is well defined.

The same unguarded event.wait() is in PollExecutor (poll function returning
float('inf') as "next poll" kills the poll thread) and RetryExecutor (policy
sleep_time of float('inf')); this demo shows the TimeoutExecutor.

Deterministic: no race involved; the demo only waits for the thread to
process the job.
"""
import threading
import logging
import time

logging.basicConfig(level=logging.CRITICAL)

from more_executors import Executors

died = []
threading.excepthook = lambda args: died.append((args.thread.name, args.exc_value))

failures = []

for big in (float("inf"), 1e10):
    del died[:]
    executor = Executors.thread_pool(max_workers=1).with_timeout(0.2)
    release = threading.Event()

    # Occupies the only worker, "may take as long as it likes".
    patient = executor.submit_timeout(big, release.wait, 120)

    # Let the timeout thread look at that job first (it reacts to the submit
    # at once; if it survives, three seconds are plenty).
    waited = time.time() + 3.0
    while executor._job_thread.is_alive() and time.time() < waited:
        time.sleep(0.05)

    # These are queued behind `patient`, so they are still pending (and
    # cancellable) at their deadline of 0.2s.
    queued = [executor.submit(release.wait, 120) for _ in range(3)]
    time.sleep(2.0)  # ten times the timeout

    cancelled = [f.cancelled() for f in queued]
    alive = executor._job_thread.is_alive()

    release.set()

    if not alive or cancelled != [True, True, True]:
        failures.append(
            "timeout=%r: worker thread alive=%s (died with %r); futures queued with the "
            "0.2s default timeout cancelled after 2s: %r, expected all True"
            % (big, alive, [e for (_, e) in died], cancelled)
        )
    executor.shutdown(wait=True)

if failures:
    print("C09/C18 VIOLATED (timeouts fire at the deadline; worker threads survive):")
    for line in failures:
        print("  - " + line)
    print(
        "Correct behaviour: the large deadline is simply never reached; all other futures "
        "get their cancel() at their own deadline."
    )
    sys.exit(1)

print("OK")
