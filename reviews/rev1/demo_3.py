import sys, os; sys.path.insert(0, os.getcwd())
"""
C04 violation: a callable that submits further work to its own RetryExecutor
dead-locks the whole stack when the layer below the RetryExecutor has a blocking
submit() (ThrottleExecutor(block=True)).

RetryExecutor._submit_now() calls self._delegate.submit(...) while holding BOTH
the future's lock and the executor-wide self._lock.  RetryExecutor.submit() and
every RetryFuture.cancel() need self._lock.  If the delegate's submit() blocks
(blocking throttle whose queue is full), the retry thread sits inside
delegate.submit() with self._lock held.  The throttle queue only drains when a
running callable finishes; a running callable that calls executor.submit()
(nested submission - which on a RetryExecutor only has to queue a job and return)
blocks on self._lock for ever -> cycle:

   callable A  --waits for-->  RetryExecutor._lock (held by retry thread)
   retry thread --waits for--> room in the throttle queue
   throttle queue --waits for--> callable A to finish

Stack: thread_pool(2).with_throttle(1, block=True) -> [Spy] -> with_retry.
The Spy is a transparent pass-through executor which only tells the demo when
the retry thread has entered the delegate's submit() for job C.

Schedule (all forced with events):
  1. submit A; A starts running in the pool and waits for `go`.
  2. submit B; it is queued in the throttle (count=1, A is in flight).
  3. submit C; the retry thread enters throttle.submit(C), which blocks because
     the throttle queue already holds count=1 entries (by design).
  4. set `go`: A calls executor.submit(D) on the RetryExecutor.
Correct: the nested submit returns a future at once, A finishes, B, C, D run.
Actual: nothing ever finishes.
"""
import threading
import logging
import time
from concurrent.futures import Executor

logging.basicConfig(level=logging.CRITICAL)

from more_executors import Executors, RetryExecutor

TIMEOUT = 20.0  # the deadlock is permanent; this only bounds the demo


class Spy(Executor):
    """Transparent pass-through; reports entry into submit() for marked callables."""

    def __init__(self, delegate):
        self.delegate = delegate
        self.entered = threading.Event()

    def submit(self, fn, *args, **kwargs):  # pylint: disable=arguments-differ
        if getattr(fn, "mark", False):
            self.entered.set()
        return self.delegate.submit(fn, *args, **kwargs)

    def shutdown(self, wait=True, **kwargs):
        self.delegate.shutdown(wait, **kwargs)


throttle = Executors.thread_pool(max_workers=2).with_throttle(1, block=True)
spy = Spy(throttle)
executor = RetryExecutor(spy, max_attempts=1)

go = threading.Event()
a_started = threading.Event()
nested_returned = threading.Event()


def job_a():
    a_started.set()
    go.wait(120)
    inner = executor.submit(lambda: "D")  # nested submission
    nested_returned.set()
    return inner


def job_b():
    return "B"


def job_c():
    return "C"


job_c.mark = True

future_a = executor.submit(job_a)
assert a_started.wait(60), "A did not start"

future_b = executor.submit(job_b)
deadline = time.time() + 60
while len(throttle._to_submit) < 1:  # B sits in the throttle queue
    assert time.time() < deadline, "B was not queued"
    time.sleep(0.01)

future_c = executor.submit(job_c)
assert spy.entered.wait(60), "retry thread did not hand over C"
# The retry thread is now inside delegate.submit(C) (it stays there: the
# throttle queue holds count entries until A finishes).

go.set()

ok = nested_returned.wait(TIMEOUT)
if ok:
    try:
        results = [
            future_a.result(TIMEOUT).result(TIMEOUT),
            future_b.result(TIMEOUT),
            future_c.result(TIMEOUT),
        ]
    except Exception as exc:  # pylint: disable=broad-except
        print("C04 VIOLATED: futures did not finish: %r" % (exc,))
        sys.stdout.flush()
        os._exit(1)
    print("OK", results)
    executor.shutdown(wait=True)
    sys.exit(0)

print("C04 VIOLATED (nested submission must return instead of blocking on itself):")
print(
    "  - executor.submit() called from callable A on its own RetryExecutor has not "
    "returned after %.0fs" % TIMEOUT
)
print(
    "  - states: A %s, B %s, C %s; throttle queue length %d"
    % (
        future_a._state,
        future_b._state,
        future_c._state,
        len(throttle._to_submit),
    )
)
print(
    "  - RetryExecutor._lock is free: %s (held by the retry thread blocked in "
    "delegate.submit)" % executor._lock.acquire(blocking=False)
)
print(
    "Correct behaviour: RetryExecutor must not hold its executor-wide lock while "
    "calling the delegate's submit(); the nested submit would then just queue D."
)
sys.stdout.flush()
os._exit(1)  # threads are dead-locked; do not try to join them
