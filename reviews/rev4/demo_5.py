import sys, os; sys.path.insert(0, os.getcwd())
"""
demo_5 (minor): RetryExecutor(delegate, retry_policy=p) silently replaces a
policy object that happens to be falsy by the default ExceptionRetryPolicy
(C05: '... for all policy parameters and custom policies').

more_executors/_impl/retry.py, RetryExecutor.__init__():

    self._default_retry_policy = retry_policy or ExceptionRetryPolicy(**kwargs)

`or` where `is None` is meant.  A policy that is a (currently empty) collection
of rules - anything with __len__ / __bool__ - is dropped: the callable is run
3 times with 1 s and 2 s back-off instead of once, and the policy is never
consulted.  (submit_retry(policy, ...) passes the same object through correctly.)

Correct behaviour: the given policy is consulted once per finished attempt; with
no rule matching, the callable runs exactly once.
"""
import threading

threading.Timer(120, lambda: (print("WATCHDOG: demo itself hung"), os._exit(3))).start()

from more_executors import Executors, RetryPolicy


class RuleSetPolicy(RetryPolicy):
    """Retry when any of the registered rules says so."""

    def __init__(self, *rules):
        self.rules = list(rules)
        self.consulted = []

    def __len__(self):
        return len(self.rules)

    def should_retry(self, attempt, future):
        self.consulted.append(attempt)
        return any(rule(attempt, future) for rule in self.rules)

    def sleep_time(self, attempt, future):
        return 0


policy = RuleSetPolicy()  # no rules (yet): never retry
executor = Executors.sync().with_retry(retry_policy=policy)

calls = []


def flaky():
    calls.append(1)
    raise ValueError("attempt %d" % len(calls))


future = executor.submit(flaky)
error = future.exception(60)
print("callable ran %d time(s); policy consulted for attempts %r; outcome %r"
      % (len(calls), policy.consulted, error))

if len(calls) != 1 or policy.consulted != [1]:
    print(
        "\nFAIL: C05 violated: the custom policy was replaced by the default "
        "ExceptionRetryPolicy because it is falsy: expected 1 run and the policy "
        "consulted once with attempt 1."
    )
    os._exit(1)
print("OK")
os._exit(0)
