import sys, os; sys.path.insert(0, os.getcwd())
"""
demo_4: RetryExecutor over ThrottleExecutor(block=True): the retry thread keeps
the lock of the future it is handing over while it is blocked in the throttle's
submit(); a done-callback on ANOTHER future that touches the first one
(cancel / add_done_callback / running) then dead-locks the retry thread and the
throttle's hand-over thread against each other (C04; then C03/C07/C11-style
starvation of everything queued).

more_executors/_impl/retry.py, RetryExecutor._submit_now():

    with job.future._me_lock:                 # (1) lock of F3 taken ...
        with self._lock:
            self._pop_job(job) ...
        try:
            delegate_future = self._delegate.submit(...)   # (2) ... and held while this
                                                           #     BLOCKS (throttle queue full)

(The earlier fix for 'retry lock held across delegate.submit' released
self._lock here, but the future's own lock is still held for the whole,
potentially unbounded, blocking call.)

more_executors/_impl/throttle.py: ThrottleFutures whose delegate future is
already done when _do_submit() reaches _set_delegate() are resolved on the
hand-over thread, so the whole callback chain  ThrottleFuture -> RetryExecutor.
_delegate_callback -> RetryFuture.set_result -> user callbacks  runs there.

Cycle:
   retry thread     holds F3._me_lock, waits in throttle.submit() for the queue
                    to get shorter      (only the hand-over thread does that)
   hand-over thread runs F1's done-callback, which calls F3.cancel()
                    -> waits for F3._me_lock (held by the retry thread)

The callback is the usual "first result wins, cancel the others" - it is what
f_or(F1, F3) installs as well.

Schedule (forced): sync delegate (callbacks on the hand-over thread, like a
thread pool that finishes a quick callable before _set_delegate), count=1,
block=True, max_attempts=1.
   F1 = submit(f1)   f1 held at a gate, in flight
   F1.add_done_callback(lambda _: F3.cancel())
   F2 = submit(f2)   -> sits in the throttle queue (length 1 == count)
   F3 = submit(f3)   -> retry thread blocks in throttle.submit(), holding F3's lock
   open the gate     -> F1 resolves on the hand-over thread -> callback -> F3.cancel()

Timers scaled by 100 (virtual time); the demo waits 5 real = 500 virtual seconds.

Correct behaviour: F3.cancel() returns (True or False), F2 runs and completes,
shutdown(wait=True) would return.  Nothing in this program waits on anything
but the library (the gate is opened unconditionally by the main thread).
"""
import threading
import time
import traceback
from concurrent.futures import wait

threading.Timer(180, lambda: (print("WATCHDOG: demo itself hung"), os._exit(3))).start()

import more_executors._impl.event as _event

SCALE = 100.0


class FastEvent(threading.Event):
    def wait(self, timeout=None):
        return super(FastEvent, self).wait(None if timeout is None else timeout / SCALE)


_event.Event = FastEvent

from more_executors import Executors

throttle = Executors.sync().with_throttle(count=1, block=True)
executor = throttle.with_retry(max_attempts=1)

gate = threading.Event()
started = threading.Event()
others = {}
cancel_result = []


def f1():
    started.set()
    gate.wait(60)
    return "first"


def first_wins(_future):
    cancel_result.append(others["F3"].cancel())


F1 = executor.submit(f1)
assert started.wait(30)
F1.add_done_callback(first_wins)

F2 = executor.submit(lambda: "second")
# wait until the retry thread has put F2 into the throttle's queue
deadline = time.time() + 30
while len(throttle._to_submit) < 1 and time.time() < deadline:
    time.sleep(0.01)

F3 = others["F3"] = executor.submit(lambda: "third")
# wait until the retry thread is blocked in throttle.submit() for F3
deadline = time.time() + 30
while not throttle._submit_lock.locked() and time.time() < deadline:
    time.sleep(0.01)
time.sleep(0.2)

gate.set()
wait([F2], timeout=5)  # 500 virtual seconds

print("F1 %s, F2 %s, F3 %s" % (F1._state, F2._state, F3._state))
print("F3.cancel() issued by F1's callback returned: %r" % (cancel_result or "NOT YET",))

if not F2.done() or not cancel_result:
    for t in threading.enumerate():
        if t.name.startswith(("ThrottleExecutor", "RetryExecutor")):
            frames = traceback.format_stack(sys._current_frames()[t.ident])
            print("--- %s is at:" % t.name)
            print("".join(f for f in frames if "more_executors" in f or "demo_4" in f)[-900:].rstrip())
    print(
        "\nFAIL: C04 violated: the retry thread (holding F3's lock, blocked in the "
        "blocking throttle's submit()) and the throttle's hand-over thread (running F1's "
        "done-callback, blocked in F3.cancel()) wait for each other for ever; F2 is queued "
        "with 0 of 1 in flight and never runs (C07/C03)."
    )
    os._exit(1)
print("OK")
os._exit(0)
