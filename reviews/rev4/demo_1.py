import sys, os; sys.path.insert(0, os.getcwd())
"""
demo_1: _Future.cancel() is not re-entrant (C02, and through it C18 / C09).

more_executors/_impl/common.py, _Future.cancel():

    self._me_cancelling = True
    try:
        if not self._me_cancel():      # -> delegate.cancel() -> runs the delegate's
            return False               #    done-callbacks in THIS thread, under our lock
    finally:
        self._me_cancelling = False
    out = super().cancel()
    if out:
        self.set_running_or_notify_cancel()   # raises if we were cancelled meanwhile

Cancelling the delegate runs arbitrary done-callbacks synchronously.  In a
"diamond" (two futures derived from the same source, and combined again)
those callbacks come back to cancel() of the very future whose cancel() is
in progress (same thread, so the RLock does not stop it).  The nested call
resets _me_cancelling to False; the following _me_delegate_cancelled() then
cancels + notifies the future, and the outer cancel() calls
set_running_or_notify_cancel() a second time:

    RuntimeError('Future in unexpected state')    (+ a CRITICAL log record)

Part 1: plain API calls, one thread:     a.cancel() raises.
Part 2: the same through f_timeout():    the exception escapes into the shared
        TimeoutExecutor thread and kills it; an unrelated future with a timeout
        is then never cancelled.

Correct behaviour: cancel() returns True (the future IS cancelled afterwards),
never raises; the timeout thread survives and `other` is cancelled at its deadline.
"""
import logging
import threading
import time
from concurrent.futures import Future

threading.Timer(120, lambda: (print("WATCHDOG: demo itself hung"), os._exit(3))).start()
logging.getLogger("concurrent.futures").addHandler(logging.NullHandler())
logging.getLogger("concurrent.futures").propagate = False

from more_executors.futures import f_map, f_zip, f_timeout

failures = []

# ---------------------------------------------------------------- part 1
src = Future()                       # e.g. the future of some fetch
a = f_map(src, lambda x: x + 1)      # two values derived from it ...
b = f_map(src, lambda x: x * 2)
both = f_zip(a, b)                   # ... and combined again

try:
    out = a.cancel()
    print("part 1: a.cancel() returned %r" % (out,))
    if out is not True or not a.cancelled():
        failures.append("part 1: a.cancel() returned %r, a.cancelled()=%r" % (out, a.cancelled()))
except Exception as ex:  # pylint: disable=broad-except
    print("part 1: a.cancel() RAISED %r   (a.cancelled() is %r)" % (ex, a.cancelled()))
    failures.append(
        "C02 violated: cancel() must return a bool and never raise; "
        "a.cancel() raised %r on a = f_map(src), b = f_map(src), f_zip(a, b)" % (ex,)
    )

# ---------------------------------------------------------------- part 2
dead_threads = []
threading.excepthook = lambda args: dead_threads.append(
    (args.thread.name, repr(args.exc_value))
)

other = f_timeout(Future(), 0.5)     # unrelated future, deadline later than a2's
src2 = Future()
a2 = f_timeout(src2, 0.05)           # cancelled by the TimeoutExecutor thread
b2 = f_map(src2, lambda x: x)
both2 = f_zip(a2, b2)

deadline = time.time() + 10
while time.time() < deadline and not other.done():
    time.sleep(0.05)

print("part 2: threads that died: %r" % (dead_threads,))
print("part 2: other (timeout 0.5s) after up to 10s: cancelled=%r" % (other.cancelled(),))
if dead_threads:
    failures.append(
        "C18 violated: a library-internal exception escaped into a worker thread: %r"
        % (dead_threads,)
    )
if not other.cancelled():
    failures.append(
        "C09 violated: an unrelated f_timeout future was never cancelled at its "
        "deadline, because the TimeoutExecutor thread is dead"
    )

if failures:
    print("\nFAIL")
    for f in failures:
        print(" - " + f)
    os._exit(1)
print("OK")
os._exit(0)
