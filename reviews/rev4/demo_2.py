import sys, os; sys.path.insert(0, os.getcwd())
"""
demo_2: ThrottleExecutor(block=True): a submit() issued from a done-callback
(or callable) that happens to run on the throttle's own hand-over thread
blocks that thread for ever - the executor is dead (C04, C07, C03).

more_executors/_impl/throttle.py

  * _do_submit() (hand-over thread) calls job.future._set_delegate(delegate_future).
    If the delegate future is already done at that point - always with a
    SyncExecutor delegate, and with a thread pool whenever the callable
    finishes before _set_delegate() is reached - the ThrottleFuture is
    resolved right there and its done-callbacks run ON THE HAND-OVER THREAD.
  * A callback that submits follow-up work to the same executor enters
    submit() -> _block_until_ready(): if the queue already holds `count`
    entries it waits on _unblock_event.  That event is only ever set by the
    hand-over thread itself (after it has shortened the queue), by a cancel
    of a queued future, or by shutdown().  The hand-over thread now waits
    for itself: `while ...: self._unblock_event.wait(30.0)` loops for ever,
    so it is not even a matter of a fallback timer.

Schedule (forced, no timing luck): count=1, block=True.
   F1 = submit(f1)            f1 is held at a gate (so that F2 can be queued behind it)
   F1.add_done_callback(cb)   cb submits F3 to the same executor
   F2 = submit(f2)            queue = [F2]   (queue length 1 == count)
   open the gate              F1 resolves on the hand-over thread -> cb -> submit(F3) blocks

The library's 30 s / 2 s fallback timers are scaled down by 100 (virtual
time) so that "for ever" can be told from "until the next fallback tick":
the demo waits 5 real seconds = 500 virtual seconds.

Correct behaviour: the nested submit() returns (property C04: submitting from
inside a callable / done-callback of the executor returns instead of blocking
on itself); F2 and F3 complete.
"""
import threading
import time
import traceback
from concurrent.futures import Executor, ThreadPoolExecutor, wait

threading.Timer(180, lambda: (print("WATCHDOG: demo itself hung"), os._exit(3))).start()

# ---- virtual time: every timed wait of the library's events is 100x shorter
import more_executors._impl.event as _event

SCALE = 100.0


class FastEvent(threading.Event):
    def wait(self, timeout=None):
        return super(FastEvent, self).wait(None if timeout is None else timeout / SCALE)


_event.Event = FastEvent

from more_executors import Executors, ThrottleExecutor


class PromptPool(Executor):
    """A thread pool whose futures are already finished when submit() returns.

    Legal Executor behaviour (SyncExecutor does the same); it pins down the
    schedule 'the pool finished the callable before ThrottleExecutor._do_submit
    reached _set_delegate()', which otherwise happens by chance with any quick
    callable."""

    def __init__(self):
        self._pool = ThreadPoolExecutor(max_workers=2)

    def submit(self, fn, *args, **kwargs):  # pylint: disable=arguments-differ
        f = self._pool.submit(fn, *args, **kwargs)
        wait([f])
        return f

    def shutdown(self, wait=True, **kwargs):  # pylint: disable=redefined-outer-name
        self._pool.shutdown(wait, **kwargs)


def scenario(label, executor):
    gate = threading.Event()
    started = threading.Event()
    nested = {}

    def f1():
        started.set()
        gate.wait(60)
        return 1

    def cb(_future):
        nested["thread"] = threading.current_thread().name
        nested["F3"] = executor.submit(lambda: 3)  # follow-up work

    F1 = executor.submit(f1)
    assert started.wait(30)
    F1.add_done_callback(cb)
    F2 = executor.submit(lambda: 2)  # queue now holds count (=1) entries
    gate.set()

    wait([F2], timeout=5)  # 5 s real = 500 virtual seconds
    ok = F2.done() and "F3" in nested
    print(
        "%s: F1 %s, F2 %s, nested submit %s (callback ran on thread %r)"
        % (
            label,
            F1._state,
            F2._state,
            "returned" if "F3" in nested else "STILL BLOCKED",
            nested.get("thread"),
        )
    )
    if not ok:
        for t in threading.enumerate():
            if t is executor._thread:
                print("  stack of %s (last frames):" % t.name)
                frames = traceback.format_stack(sys._current_frames()[t.ident])
                print("".join(frames[-6:-2]).rstrip())
    return ok


results = [
    scenario("sync delegate      ", Executors.sync().with_throttle(1, block=True)),
    scenario("thread pool delegate", ThrottleExecutor(PromptPool(), 1, block=True)),
]

if not all(results):
    print(
        "\nFAIL: C04 violated (submit from a done-callback of the executor blocks on "
        "itself for ever); consequently C07/C03: capacity is idle (0 of 1 in flight) "
        "while F2 is queued, F2 never runs, and every later submit() blocks as well."
    )
    os._exit(1)
print("OK")
os._exit(0)
