import sys, os; sys.path.insert(0, os.getcwd())
"""
demo_3: ThrottleExecutor(block=True) with a dynamic count: a submit() that
started to block while the count callable returned 0 ("paused") stays blocked
for ever after the count has been raised again (C07, C04).

more_executors/_impl/throttle.py

    def submit(self, fn, *args, **kwargs):
        with self._submit_lock:
            self._block_until_ready(self._eval_throttle())     # evaluated ONCE
            ...
    def _block_until_ready(self, throttle_val):
        while self._block and not self._shutdown.is_shutdown:
            self._unblock_event.clear()
            if throttle_val is None or len(self._to_submit) < throttle_val:
                return
            self._unblock_event.wait(30.0)

throttle_val is a snapshot taken before the loop.  While the caller waits,
the hand-over thread keeps re-evaluating the count callable (every 2 s / 30 s)
and sees the new value, but
  * nothing sets _unblock_event when the count changes (it is only set when
    the queue gets shorter - here the queue is empty - on a cancel of a queued
    future, or on shutdown), and
  * even when the 30 s fallback wait expires, the loop compares the queue
    length with the stale snapshot (0), so it blocks again.
As the blocked caller also holds _submit_lock, every other submit() to the
executor hangs behind it; only shutdown() ends it (with RuntimeError).

History: count() == 0; thread T calls submit() (blocks, as it should);
count() becomes 5; the hand-over thread's periodic re-check picks 5 up
(executor._last_throttle == 5, queue empty, nothing in flight).

The library's fallback timers are scaled down by 100 (virtual time); the demo
waits 5 real seconds = 500 virtual seconds, i.e. >15 of the 30 s fallback
periods and >200 of the 2 s re-checks.

Correct behaviour (C07): 'count is ... the value the count callable most
recently returned to the executor', '(a changed dynamic count takes effect by
the executor's periodic re-check at the latest)', 'in blocking mode submit()
... blocks only while the queue already holds count entries': the queue holds
0 < 5 entries, so submit() has to return and the callable has to run.
"""
import threading
import time

threading.Timer(180, lambda: (print("WATCHDOG: demo itself hung"), os._exit(3))).start()

import more_executors._impl.event as _event

SCALE = 100.0


class FastEvent(threading.Event):
    def wait(self, timeout=None):
        return super(FastEvent, self).wait(None if timeout is None else timeout / SCALE)


_event.Event = FastEvent

from more_executors import Executors

limit = [0]
calls = []


def count():
    calls.append(limit[0])
    return limit[0]


executor = Executors.thread_pool(max_workers=2).with_throttle(count=count, block=True)
result = {}


def submitter():
    result["future"] = executor.submit(lambda: "ran")


t = threading.Thread(target=submitter)
t.daemon = True
t.start()

time.sleep(0.5)
print("count()==0: submit() blocked: %r   (expected: True)" % t.is_alive())

limit[0] = 5
seen_before = len(calls)
t.join(5)  # 500 virtual seconds

seen_new_value = 5 in calls[seen_before:]
print(
    "count()==5 for 500 virtual seconds: the executor re-evaluated the count %d times "
    "and got 5: %r; queue length %d"
    % (len(calls) - seen_before, seen_new_value, len(executor._to_submit))
)
print("submit() still blocked: %r   (expected: False)" % t.is_alive())

if t.is_alive():
    print(
        "\nFAIL: C07 violated: in blocking mode submit() must block only while the queue "
        "holds `count` entries; the count most recently returned to the executor is 5, "
        "the queue is empty, yet submit() never returns (and holds _submit_lock, so no "
        "other thread can submit either)."
    )
    os._exit(1)
print("future: %r" % result["future"].result(10))
print("OK")
os._exit(0)
