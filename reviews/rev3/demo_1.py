import sys, os; sys.path.insert(0, os.getcwd())
"""
C12 violation: a PollExecutor whose poll function raised can never be reclaimed
while any of the futures failed by that poll (or just their exception) is alive:
its worker thread keeps running - and keeps calling the poll function - for ever
after the user dropped the executor without shutdown().

Mechanism (more_executors/_impl/poll.py, PollExecutor._run_poll_fn):

    except Exception as e:
        ...
        [d.yield_exception(e) for d in descriptors]

`e.__traceback__` starts at the frame of _run_poll_fn itself, whose locals are
`self` (the executor) and `descriptors` (every future shown to that poll, with
the delegate results). The exception is stored in every failed future, so

    failed future -> exception -> traceback -> _run_poll_fn frame -> executor

is a strong reference chain made by the library (the user's poll function does
not reference the executor). The weakref held by the poll thread therefore never
dies, "executor dropped without shutdown" is never noticed, the thread never exits.
A future resolved normally (control run below) does not retain the executor.
"""
import gc
import threading

from more_executors import Executors


def run(poll_raises):
    calls = []

    def poll_fn(descriptors):
        calls.append(len(descriptors))
        for d in descriptors:
            if poll_raises:
                raise RuntimeError("poll function failed")
            d.yield_result(d.result)
        return 0.01

    executor = Executors.sync().with_poll(poll_fn, default_interval=0.01)
    thread = executor._poll_thread
    future = executor.submit(lambda: "x")
    error = future.exception(20)

    # The user drops the executor without shutdown, keeping only the done future.
    del executor
    gc.collect()
    thread.join(3.0)
    return future, error, thread, calls


# control: future resolved with a value
future, error, thread, calls = run(poll_raises=False)
assert error is None and future.result() == "x"
if thread.is_alive():
    print("unexpected: control run keeps the thread alive")
    sys.exit(2)
print("control (poll yields a value): poll thread exited after the executor was dropped")

# poll function raises: future fails with that exception
future, error, thread, calls = run(poll_raises=True)
assert isinstance(error, RuntimeError)

alive = thread.is_alive()

# show the retention path
holders = []
tb = error.__traceback__
while tb is not None:
    code = tb.tb_frame.f_code
    for name, value in tb.tb_frame.f_locals.items():
        if type(value).__name__ == "PollExecutor":
            holders.append("%s() local %r" % (code.co_name, name))
    tb = tb.tb_next

n_before = len(calls)
threading.Event().wait(0.3)
n_after = len(calls)

if alive:
    print(
        "VIOLATION of C12 (worker thread exits after the last reference to the "
        "executor is dropped): %s is still alive after del executor + gc.collect(); "
        "it made %d further poll calls in 0.3s." % (thread.name, n_after - n_before)
    )
    print("The done (failed) future retains the executor through: "
          "future.exception().__traceback__ -> %s" % ", ".join(holders))
    # causality: once the failed future/exception go away the thread exits
    del future, error, tb
    gc.collect()
    thread.join(5.0)
    print("after also dropping the failed future: thread alive = %s" % thread.is_alive())
    print(
        "Expected: a done future holds no reference to its executor (C12: 'once a "
        "future is done the library keeps no reference ...'), so the thread exits as "
        "in the control run."
    )
    sys.exit(1)

print("OK: poll thread exited")
sys.exit(0)
