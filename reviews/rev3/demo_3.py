import sys, os; sys.path.insert(0, os.getcwd())
"""
C03 / C05 / C20 violation (metrics call site in RetryExecutor): with Prometheus
metrics enabled, a retry policy whose sleep_time() returns a NEGATIVE number
("retry at once"; e.g. a policy computing `next_slot - now`) loses the job:
the future stays pending for ever and the gauges future_inprogress stays at 1
while retry_queue drops to 0. Without prometheus_client the very same program
works (a `when` in the past means "retry immediately"), i.e. merely installing
prometheus_client changes the outcome.

Mechanism (more_executors/_impl/retry.py, RetryExecutor._retry):

    with self._lock:
        self._pop_job(job)                                            # job removed
        metrics.RETRY_DELAY.labels(executor=self._name).inc(sleep_time)   # raises
        new_job = RetryJob(...)
        self._append_job(new_job)                                     # never reached

prometheus_client's Counter.inc() raises
ValueError('Counters can only be incremented by non-negative amounts.') for a
negative amount. _retry() runs inside the delegate future's done-callback, where
concurrent.futures logs and swallows the exception: the job is gone, nobody will
ever resolve the RetryFuture.

prometheus_client is not installed here: /tmp/review/rev3/stub/prometheus_client.py
is a minimal stand-in reproducing Counter/Gauge incl. that ValueError.
Run with argument "control" (done automatically) to see the behaviour with metrics off.
"""
import logging
import subprocess

CONTROL = len(sys.argv) > 1 and sys.argv[1] == "control"
if not CONTROL:
    sys.path.insert(0, os.path.join(os.path.dirname(os.path.abspath(__file__)), "stub"))
else:
    os.environ["MORE_EXECUTORS_PROMETHEUS"] = "0"

logging.basicConfig(level=logging.CRITICAL)

from concurrent.futures import TimeoutError as FutureTimeout
from more_executors import Executors
from more_executors.retry import RetryPolicy


class EagerPolicy(RetryPolicy):
    def should_retry(self, attempt, future):
        return attempt < 3 and future.exception() is not None

    def sleep_time(self, attempt, future):
        return -0.5  # a number; "the next attempt was due half a second ago"


calls = []


def flaky():
    calls.append(1)
    if len(calls) == 1:
        raise ValueError("first attempt fails")
    return "ok"


executor = Executors.thread_pool(max_workers=1).with_retry(
    retry_policy=EagerPolicy(), name="demo"
)
future = executor.submit(flaky)
try:
    outcome = "result %r" % (future.result(5.0),)
    lost = False
except FutureTimeout:
    outcome = "still pending after 5s"
    lost = True

print("%s: attempts=%d, future: %s"
      % ("metrics OFF" if CONTROL else "metrics ON ", len(calls), outcome))

if CONTROL:
    executor.shutdown(wait=False)
    sys.exit(1 if lost else 0)

import prometheus_client as stub

inprogress = stub.get("future_inprogress", type="retry", executor="demo")
queue = stub.get("retry_queue", executor="demo")
jobs = len(executor._jobs)
executor.shutdown(wait=False)

rc = subprocess.call([sys.executable, os.path.abspath(__file__), "control"])
if rc != 0:
    print("unexpected: control run (metrics off) failed too")
    sys.exit(2)

if lost:
    print(
        "VIOLATION of C03 (no future is lost) / C05 (attempt k+1 starts after the "
        "policy's sleep_time) caused by a metrics call: the callable failed once, "
        "the policy asked for a retry, but no second attempt was made and the future "
        "never finishes. Jobs left in the executor's table: %d." % jobs
    )
    print(
        "VIOLATION of C20: at quiescence gauge future_inprogress{retry,demo}=%s and "
        "retry_queue{demo}=%s - the two disagree about whether anything is pending."
        % (inprogress, queue)
    )
    print("Expected: same behaviour as with metrics off (second attempt at once, "
          "result 'ok'); metrics must never alter or lose work.")
    sys.exit(1)
print("OK")
sys.exit(0)
