import sys, os; sys.path.insert(0, os.getcwd())
"""
C09 violation: TimeoutExecutor.shutdown() - with wait=True as well as wait=False,
hence also leaving a `with` block - stops the deadline thread at once, so every
future still pending at that moment NEVER receives its cancel() attempt, although
it is "still not done at its deadline".

Mechanism (more_executors/_impl/timeout.py):
  shutdown():        self._shutdown() ; self._jobs_write.set() ; delegate.shutdown(wait) ; join
  _job_loop_iter():  if executor._shutdown.is_shutdown ...: return (None, None)  -> thread ends
The jobs (future, deadline) still in executor._jobs are simply abandoned. With
wait=True the delegate's shutdown then waits for all the work the timeouts were
meant to cut short.

Part 1 (wait=True, the `with` statement): 1-worker thread pool, timeout 0.2s.
  The first callable blocks, two more are queued behind it. Queued futures are
  cancellable, so without shutdown they are cancelled at t=0.2s (control).
  Inside a `with` block the very same futures are never cancelled: __exit__
  waits until every callable has run.
Part 2 (wait=False, futures of a delegate that never finishes them):
  after shutdown(wait=False) no cancel() is ever attempted.
"""
import threading
import time
from concurrent.futures import Executor, Future

from more_executors import Executors

TIMEOUT = 0.2
failures = []


def scenario(use_with_block):
    release = threading.Event()
    ran = []

    def work(i):
        ran.append(i)
        release.wait(30)
        return i

    executor = Executors.thread_pool(max_workers=1).with_timeout(TIMEOUT)
    futures = []
    out = {}

    def body():
        if use_with_block:
            with executor:
                futures.extend(executor.submit(work, i) for i in range(3))
                out["submitted"] = True
            # <- __exit__ = shutdown(wait=True)
        else:
            futures.extend(executor.submit(work, i) for i in range(3))
            out["submitted"] = True

    t = threading.Thread(target=body)
    t.start()
    # let ten times the timeout pass while the first callable blocks the pool
    deadline = time.monotonic() + 10 * TIMEOUT
    while time.monotonic() < deadline:
        time.sleep(0.05)
    state = [f.cancelled() for f in futures]
    release.set()
    t.join(30)
    if not use_with_block:
        executor.shutdown(wait=True)
    return state, sorted(ran)


state, ran = scenario(use_with_block=False)
print("control, no shutdown : cancelled=%s callables run=%s" % (state, ran))
if state != [False, True, True]:
    print("unexpected control result")
    sys.exit(2)

state, ran = scenario(use_with_block=True)
print("with-block (wait=True): cancelled=%s callables run=%s" % (state, ran))
if state != [False, True, True]:
    failures.append(
        "shutdown(wait=True): queued futures %s were not cancelled %.1fs after "
        "their %.1fs deadline; all callables ran: %s" % (state, 10 * TIMEOUT, TIMEOUT, ran)
    )


# Part 2: wait=False
class CountingFuture(Future):
    cancel_calls = 0

    def cancel(self):
        type(self).cancel_calls += 1
        return super(CountingFuture, self).cancel()


class NeverFinishes(Executor):
    def submit(self, fn, *args, **kwargs):
        return CountingFuture()

    def shutdown(self, wait=True, **kwargs):
        pass


executor = Executors.with_timeout(NeverFinishes(), TIMEOUT)
future = executor.submit(lambda: None)
executor.shutdown(wait=False)
executor._job_thread.join(10)
thread_alive = executor._job_thread.is_alive()
time.sleep(5 * TIMEOUT)
print(
    "shutdown(wait=False)  : deadline thread alive=%s, pending jobs left behind=%d, "
    "cancel() attempts=%d, future done=%s"
    % (thread_alive, len(executor._jobs), CountingFuture.cancel_calls, future.done())
)
if CountingFuture.cancel_calls != 1:
    failures.append(
        "shutdown(wait=False): the future was still pending at its deadline but "
        "received %d cancel() attempts (deadline thread exited with the job still "
        "in its table)" % CountingFuture.cancel_calls
    )

if failures:
    print("VIOLATION of C09 (a future still not done at its deadline receives exactly "
          "one cancel() attempt, made at the deadline):")
    for f in failures:
        print("  - " + f)
    print("Expected: futures accepted before shutdown() keep their deadline; the "
          "deadline thread should serve the jobs it already has (and exit once its "
          "table is empty) instead of abandoning them.")
    sys.exit(1)
print("OK")
sys.exit(0)
