import sys, os; sys.path.insert(0, os.getcwd())
"""
C08 violation: the poll function is handed a descriptor for a future that has
already been resolved (its yield_result() returned during an EARLIER poll call).

Mechanism: PollFuture.__init__ (more_executors/_impl/poll.py, lines 31-32)
attaches itself to the delegate future BEFORE it registers the done-callback
(_clear_executor) which removes its descriptor from the executor's table:

    self._delegate.add_done_callback(self._delegate_resolved)   # line 31
    self.add_done_callback(self._clear_executor)                # line 32

If the delegate is already finished (SyncExecutor; or a quick thread-pool worker)
line 31 registers the descriptor right away. When the poll thread resolves the
future before the submitting thread reaches line 32, nothing deregisters the
descriptor, so it stays in the table and every further poll call is shown the
already-resolved future until the submitting thread finally gets to line 32.

The schedule is forced with a sys.settrace line hook which only *delays* the
submitting thread between the two lines (as a pre-emption would).
"""
import threading
import time

import more_executors._impl.poll as poll_mod
from more_executors import Executors

POLL_FILE = poll_mod.__file__.replace(".pyc", ".py")

calls = []  # per poll call: list of (descriptor id, result)
resolved_returned = threading.Event()
later_poll_done = threading.Event()
stale = []


def poll_fn(descriptors):
    n = len(calls)
    calls.append([d.result for d in descriptors])
    if resolved_returned.is_set():
        # A poll call which BEGAN after yield_result() had returned.
        if descriptors:
            stale.append((n, [d.result for d in descriptors]))
        later_poll_done.set()
        return 0.01
    for d in descriptors:
        d.yield_result("resolved:%s" % d.result)
        # yield_result has returned: the future is resolved from here on
        resolved_returned.set()
    return 0.01


def find_line():
    # line of "self.add_done_callback(self._clear_executor)" in PollFuture.__init__
    with open(POLL_FILE) as fh:
        for no, line in enumerate(fh, 1):
            if "self.add_done_callback(self._clear_executor)" in line:
                return no
    raise SystemExit("source layout changed; cannot place the hook")


HOOK_LINE = find_line()
main_thread = threading.current_thread()


def tracer(frame, event, arg):
    if frame.f_code.co_filename != POLL_FILE or frame.f_code.co_name != "__init__":
        return None

    def local(frame, event, arg):
        if event == "line" and frame.f_lineno == HOOK_LINE:
            # Submitting thread is "pre-empted" here until the poll thread has
            # resolved the future and has completed one more poll call.
            resolved_returned.wait(20)
            later_poll_done.wait(20)
        return local

    return local


executor = Executors.sync().with_poll(poll_fn, default_interval=0.01)

sys.settrace(tracer)
try:
    future = executor.submit(lambda: "job-1")
finally:
    sys.settrace(None)

value = future.result(20)
executor.shutdown(wait=True)

print("future result: %r" % (value,))
print("first poll calls: %r" % (calls[:4],))
if stale:
    n, shown = stale[0]
    print(
        "VIOLATION of C08 (exact descriptor set): poll call #%d began after "
        "yield_result() for the future had returned, yet it was handed a "
        "descriptor for that already-resolved future: %r" % (n, shown)
    )
    print(
        "Expected: a resolved future's descriptor is removed before its resolving "
        "call returns, so later poll calls receive an empty list."
    )
    sys.exit(1)
print("OK: no descriptor shown for a resolved future")
sys.exit(0)
