import sys, os; sys.path.insert(0, os.getcwd())
# Finding 6 (three small ones, each a one-liner to fix):
#
# (a) C16 "every keyword argument under its own name": f_apply's own first
#     parameter is called `future_fn`, so the applied function cannot receive a
#     keyword argument of that name (neither can `future_args`-style names
#     collide, only this one): TypeError "multiple values for argument".
#     [This is NOT the known fn=/self= Python-2 signature issue: the name is the
#     library's own invention.]  Same shape: TimeoutExecutor.submit_timeout(5, fn,
#     timeout=3) / RetryExecutor.submit_retry(policy, fn, retry_policy=...) - the
#     earlier fix for submit() left these entry points alone.
# (b) C14 "f_and resolves with the outcome of the first input to finish falsy,
#     otherwise of the LAST input to finish": AndOperation.get_state_update
#     tests `(not f.result()) or (not self.fs)`, i.e. it takes the truth value of
#     the last input too, which neither Python's `and` nor OrOperation
#     (`(not self.fs) or ...`) do.  A last result whose truth value is undefined
#     (numpy array / pandas frame: ValueError) makes f_and FAIL instead of
#     returning it; f_or returns it.
# (c) C18 "no library-internal exception escapes ...": duplicate inputs (in the
#     quantifier of C14) make BoolOperation.handle_done run twice for one future;
#     unless that future decides the result, the second run does
#     `del self.fs[f]` -> KeyError inside the done-callback (logged by
#     concurrent.futures as "exception calling callback").  The outcome is still
#     right, but every such call spits a traceback into the application log.
import logging
from concurrent.futures import Future

from more_executors import Executors
from more_executors.futures import f_apply, f_and, f_or, f_return

problems = []

# ---- (a) ---------------------------------------------------------------------
def report(title, future_fn=None):
    return "%s by %s" % (title, future_fn)


try:
    got = f_apply(f_return(report), f_return("T"), future_fn=f_return("me")).result()
    print("(a) f_apply(..., future_fn=...) ->", got)
except TypeError as ex:
    problems.append("(a) C16: f_apply(f_fn, f_title, future_fn=f_x) raised TypeError(%s); "
                    "expected 'T by me'" % ex)


def get(url, timeout=None):
    return (url, timeout)


tex = Executors.sync().with_timeout(60)
print("(a) submit(get, 'u', timeout=3)           ->", tex.submit(get, "u", timeout=3).result())
try:
    print("(a) submit_timeout(5, get, 'u', timeout=3) ->",
          tex.submit_timeout(5, get, "u", timeout=3).result())
except TypeError as ex:
    problems.append("(a) C01: submit_timeout(5, get, 'u', timeout=3) raised TypeError(%s); "
                    "expected ('u', 3) like submit()" % ex)
tex.shutdown(wait=True)


# ---- (b) ---------------------------------------------------------------------
class Ambiguous(object):
    def __bool__(self):
        raise ValueError("The truth value of an array is ambiguous")

    __nonzero__ = __bool__


last = Ambiguous()
assert (1 and last) is last  # Python: the last operand's truth is never taken
assert (0 or last) is last

a, b = Future(), Future()
out_or = f_or(a, b)
a.set_result(0)
b.set_result(last)
print("(b) f_or(0, <ambiguous>)  ->", "the object" if out_or.result() is last else out_or)

a, b = Future(), Future()
out_and = f_and(a, b)
a.set_result(1)
b.set_result(last)
if out_and.exception() is not None or out_and.result() is not last:
    problems.append("(b) C14: f_and(1, X) with X finishing last: expected X itself (like `1 and X` "
                    "and like f_or), got exception %r" % (out_and.exception(),))
else:
    print("(b) f_and(1, <ambiguous>) -> the object")

# ---- (c) ---------------------------------------------------------------------
records = []


class Collect(logging.Handler):
    def emit(self, record):
        records.append(record)


logging.getLogger("concurrent.futures").addHandler(Collect())
logging.getLogger("concurrent.futures").propagate = False
a, b = Future(), Future()
out = f_or(a, a, b)
a.set_result(0)
b.set_result("b")
print("(c) f_or(a, a, b) ->", out.result())
if records:
    r = records[0]
    problems.append("(c) C18: f_or(a, a, b): %s: %s" % (r.getMessage()[:60], repr(r.exc_info[1])[:60]))

if problems:
    for line in problems:
        print("VIOLATION", line)
    sys.exit(1)
print("no violation observed")
