import sys, os; sys.path.insert(0, os.getcwd())
# Finding 2 - C13 (a successful input yields fn(result); fn is called), C19
# (all callables: ... callable objects), C01 (sequential evaluation of the layers):
# MapFuture.__init__ does `self._map_fn = map_fn or identity` and
# FlatMapFuture.__init__ does `map_fn = map_fn or f_return`.  The test is meant to
# be "fn was omitted" (`is None`) but is a truthiness test, so a callable OBJECT
# that happens to be falsy (it defines __len__ or __bool__: an empty callable
# collection / pipeline / registry, a callable ctypes or numpy-like object...)
# is silently replaced by the identity function: the mapping function is never
# called and the unmapped value is delivered.
# (error_fn is tested with `is None` and works.)
#
# Correct behaviour: any callable that was passed is called; only None means
# "omitted".
from more_executors import Executors
from more_executors.futures import f_map, f_flat_map, f_return, f_return_error


class Pipeline(list):
    """A callable list of processing steps; an empty pipeline is falsy."""

    calls = 0

    def __call__(self, value):
        type(self).calls += 1
        for step in self:
            value = step(value)
        return ("processed", value)


class FuturePipeline(Pipeline):
    calls = 0

    def __call__(self, value):
        return f_return(super(FuturePipeline, self).__call__(value))


problems = []


def check(label, got, cls, want_calls):
    want = ("processed", 1)
    print("%-40s -> %r (fn calls: %d)" % (label, got, cls.calls))
    if got != want or cls.calls != want_calls:
        problems.append(
            "%s: expected %r with fn called %d time(s), got %r with %d call(s)"
            % (label, want, want_calls, got, cls.calls)
        )


p = Pipeline()
fp = FuturePipeline()
assert callable(p) and not p  # legal callable, falsy

check("f_map(f_return(1), p)", f_map(f_return(1), p).result(), Pipeline, 1)
check(
    "Executors.sync().with_map(p)",
    Executors.sync().with_map(p).submit(lambda: 1).result(),
    Pipeline,
    2,
)
check(
    "sync().bind(fn).with_map(p)()",
    Executors.sync().bind(lambda: 1).with_map(p)().result(),
    Pipeline,
    3,
)
check("f_flat_map(f_return(1), fp)", f_flat_map(f_return(1), fp).result(), FuturePipeline, 1)
check(
    "Executors.sync().with_flat_map(fp)",
    Executors.sync().with_flat_map(fp).submit(lambda: 1).result(),
    FuturePipeline,
    2,
)

# control: the same object used as error_fn IS honoured (tested with `is None`)
Pipeline.calls = 0
err = f_map(f_return_error(ValueError("x")), error_fn=p).result()
print("control, as error_fn -> %r (calls %d)" % (err, Pipeline.calls))

# Same defect class elsewhere (C08: "a False ... from it vetoing the cancel"):
# PollExecutor._run_cancel_fn does `if not self._cancel_fn: return True`.
class Veto(list):
    calls = 0

    def __call__(self, value):
        Veto.calls += 1
        return False  # veto every cancel


poll_ex = Executors.sync().with_poll(lambda descriptors: None, Veto(), default_interval=30)
pf = poll_ex.submit(lambda: 1)  # sync delegate: already in the polling stage
cancelled = pf.cancel()
print("PollExecutor, falsy cancel_fn vetoing: cancel() -> %r (cancel_fn calls: %d)" % (cancelled, Veto.calls))
if cancelled or Veto.calls != 1:
    problems.append(
        "PollExecutor(cancel_fn=<falsy callable returning False>): cancel() returned %r "
        "and cancel_fn was consulted %d time(s); expected False / 1 (C08)"
        % (cancelled, Veto.calls)
    )
poll_ex.shutdown(wait=True)

if problems:
    print()
    for line in problems:
        print("VIOLATION C13/C19:", line)
    print("(map.py: `map_fn or identity`, flat_map.py: `map_fn or f_return`)")
    sys.exit(1)
print("no violation observed")
