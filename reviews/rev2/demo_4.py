import sys, os; sys.path.insert(0, os.getcwd())
# Finding 4 - C19 (a name given to the base executor is inherited by every layer
# created by chaining and appears in the names of the threads those layers
# create; "for all explicit/implicit name assignments along the chain"):
#
# (a) Executors.process_pool(name=...) - "All executors accept an optional name
#     argument ... names automatically propagate through the chain" (user guide) -
#     CustomizableProcessPoolExecutor.__init__ does kwargs.pop("name", None) and
#     forgets it; CanCustomize.__propagate_name finds neither `_name` nor
#     `_CustomizableThreadPoolExecutor__name` on it, so every layer chained onto a
#     named process pool is called "default" (thread "RetryExecutor-default",
#     metrics label executor="default").
# (b) an explicit name passed POSITIONALLY to a with_* call (a legal way to call
#     e.g. MapExecutor(delegate, fn, logger, name)) collides with the inherited
#     name that __propagate_name injects as a keyword, because it only looks for
#     "name" in kwargs: TypeError "got multiple values for argument 'name'".
#     Without an inherited name (base executor unnamed -> "default" is still
#     injected) the same call fails as well, so positional names never work
#     through the chaining API, while Executors.with_map(ex, fn, None, "x") works.
import threading

from more_executors import Executors

problems = []

# ---- (a) ---------------------------------------------------------------------
base = Executors.process_pool(max_workers=1, name="svc")  # no process is started
chained = base.with_retry().with_map(lambda x: x)
retry_layer = chained._delegate
names = (retry_layer._name, chained._name)
threads = sorted(t.name for t in threading.enumerate() if t.name.startswith("RetryExecutor"))
print("(a) layer names over process_pool(name='svc'):", names, "threads:", threads)
if names != ("svc", "svc") or threads != ["RetryExecutor-svc"]:
    problems.append(
        "(a) process_pool(name='svc').with_retry().with_map(): layers are named %r and "
        "the retry thread is %r; expected ('svc', 'svc') and ['RetryExecutor-svc']"
        % (names, threads)
    )
chained.shutdown(wait=True)

# control: the same chain over a thread pool does inherit
tp = Executors.thread_pool(max_workers=1, name="svc").with_retry().with_map(lambda x: x)
print("    control, thread_pool(name='svc'):", (tp._delegate._name, tp._name))
tp.shutdown(wait=True)

# ---- (b) ---------------------------------------------------------------------
direct = Executors.with_map(Executors.sync(name="base"), lambda x: x, None, "explicit")
print("(b) Executors.with_map(ex, fn, None, 'explicit')._name =", direct._name)
try:
    layer = Executors.sync(name="base").with_map(lambda x: x, None, "explicit")
    print("    ex.with_map(fn, None, 'explicit')._name =", layer._name)
    if layer._name != "explicit":
        problems.append("(b) explicit positional name not used: %r" % layer._name)
except TypeError as ex:
    problems.append(
        "(b) Executors.sync(name='base').with_map(fn, None, 'explicit') raised "
        "TypeError(%s); expected a MapExecutor named 'explicit'" % ex
    )
try:
    bound = Executors.sync().bind(lambda: 1).with_timeout(5.0, None, "explicit")
    print("    bind(fn).with_timeout(5.0, None, 'explicit') ->", bound().result())
except TypeError as ex:
    problems.append(
        "(b) sync().bind(fn).with_timeout(5.0, None, 'explicit') raised TypeError(%s)" % ex
    )

if problems:
    for line in problems:
        print("VIOLATION C19:", line)
    sys.exit(1)
print("no violation observed")
