import sys, os; sys.path.insert(0, os.getcwd())
# Finding 3 - C20 (gauges return to reality at quiescence):
# every call of f_map / f_flat_map / f_apply / f_sequence / f_traverse (via
# futures/base.py wrap() -> EXECUTOR.flat_bind(...).with_map(...)) and every
# "cold" call of f_timeout (futures/timeout.py timeout_executor()) CREATES new
# MapExecutor / FlatMapExecutor / SyncExecutor / TimeoutExecutor objects named
# "internal".  Their constructors do EXEC_INPROGRESS.inc(); the only dec() is in
# shutdown(), which nobody ever calls (or can call) on these throw-away
# executors.  So the documented gauge more_executors_exec_inprogress
# ("executors currently in use: created and shutdown() not yet called") climbs
# by 2 for each f_map / f_flat_map / f_sequence call, by 2 + 4 per argument for
# f_apply, by 3 for a cold f_timeout ...
# and never comes back, although all those executors are garbage long ago.
#
# Correct behaviour: after all futures are done and dropped, exec_inprogress
# equals the number of executors that are really alive and not shut down
# (here: the one module-level internal SyncExecutor).
import types, collections, gc, time, weakref

VALUES = collections.defaultdict(float)


class _Child(object):
    def __init__(self, key):
        self.key = key

    def inc(self, amount=1):
        VALUES[self.key] += amount

    def dec(self, amount=1):
        VALUES[self.key] -= amount


class _Metric(object):
    def __init__(self, name, documentation, labelnames=(), namespace=""):
        self.name = name

    def labels(self, **labels):
        return _Child((self.name,) + tuple(sorted(labels.items())))


stub = types.ModuleType("prometheus_client")
stub.Counter = _Metric
stub.Gauge = _Metric
sys.modules["prometheus_client"] = stub

from concurrent.futures import Future  # noqa: E402
from more_executors.futures import (  # noqa: E402
    f_map, f_flat_map, f_apply, f_sequence, f_timeout, f_return,
)
from more_executors._impl.map import MapExecutor  # noqa: E402
from more_executors._impl.timeout import TimeoutExecutor  # noqa: E402

# count the executors that are REALLY alive
alive = weakref.WeakSet()
for cls in (MapExecutor, TimeoutExecutor):  # FlatMapExecutor is a MapExecutor
    def patched(self, *a, __orig=cls.__init__, **kw):
        __orig(self, *a, **kw)
        alive.add(self)
    cls.__init__ = patched


def gauge_internal():
    return dict(
        (dict(k[1:])["type"], v)
        for k, v in VALUES.items()
        if k[0] == "exec_inprogress" and v
    )


print("baseline exec_inprogress:", gauge_internal())
baseline = sum(gauge_internal().values())

for i in range(50):
    assert f_map(f_return(i), lambda x: x + 1).result() == i + 1
    assert f_flat_map(f_return(i), lambda x: f_return(x + 1)).result() == i + 1
    assert f_apply(f_return(lambda a, b: a + b), f_return(1), f_return(2)).result() == 3
    assert f_sequence([f_return(1), f_return(2)]).result() == [1, 2]
for i in range(3):
    inner = Future()
    t = f_timeout(inner, 60)
    inner.set_result(i)
    assert t.result() == i
    del t, inner
    gc.collect()
    time.sleep(0.3)  # let the internal timeout thread notice and exit

gc.collect()
time.sleep(0.3)
gc.collect()
now = gauge_internal()
total = sum(now.values())
in_progress_futures = sum(v for k, v in VALUES.items() if k[0] == "future_inprogress")
print("quiescent: futures in progress = %d, map/flat_map/timeout executors really alive = %d"
      % (in_progress_futures, len(alive)))
print("quiescent exec_inprogress:", now)

if total != baseline + len(alive):
    print(
        "VIOLATION C20: gauge exec_inprogress reports %d executors in use, but only "
        "%d (baseline) + %d are alive; drift = %d after 200 combinator calls + 3 f_timeout"
        % (total, baseline, len(alive), total - baseline - len(alive))
    )
    sys.exit(1)
print("no violation observed")
