import sys, os; sys.path.insert(0, os.getcwd())
# Finding 1 - C03 (no future is lost), C13 ("all chain lengths"), C16 ("for all arities"):
# a moderately long chain of f_map / f_flat_map links (or an f_apply with a few
# dozen arguments) built on a future that is still PENDING is resolved by nested
# done-callbacks.  When the head finally resolves, the nesting exceeds Python's
# recursion limit; the RecursionError is raised inside the done-callback
# dispatch of an already-finished link, travels up into that link's own
# "except Exception: copy_exception(self)" and is thrown away there
# (InvalidStateError -> LOG.debug).  Every link behind that point stays
# PENDING FOR EVER - no exception, no log record, nothing.
#
# Correct behaviour: every link finishes once the head has finished - with the
# mapped value (ideal; dispatch the callbacks iteratively), or at the very
# least with the RecursionError as its outcome.
import logging
import threading
from concurrent.futures import Future, TimeoutError

from more_executors import Executors
from more_executors.futures import f_map, f_flat_map, f_apply, f_return

records = []


class Collect(logging.Handler):
    def emit(self, record):
        records.append(record)


logging.getLogger().addHandler(Collect())
logging.getLogger().setLevel(logging.WARNING)

problems = []


def states(chain):
    return [c._state for c in chain]


# --- A: the "fold over a future" idiom, head completed by a pool thread -----
N = 200
gate = threading.Event()
pool = Executors.thread_pool(max_workers=1)
head = pool.submit(lambda: gate.wait(60) and 0)  # still running while we chain
acc = head
chain = []
for _ in range(N):
    acc = f_map(acc, lambda v: v + 1)
    chain.append(acc)
gate.set()
assert head.result(30) == 0  # the underlying work HAS finished
try:
    value = acc.result(5)
    print("A: f_map chain of %d links -> %r" % (N, value))
    if value != N:
        problems.append("A: wrong value %r" % (value,))
except TimeoutError:
    st = states(chain)
    first_pending = st.index("PENDING")
    problems.append(
        "A: C03/C13 violated: head finished with 0, but links %d..%d of the "
        "%d-link f_map chain are still PENDING (links 0..%d finished); "
        "result() of the last link timed out"
        % (first_pending, N - 1, N, first_pending - 1)
    )
except Exception as ex:  # an exception outcome would at least not be a hang
    print("A: chain ended with exception %r (not a hang)" % (ex,))
pool.shutdown(wait=True)

# --- B: the same with f_flat_map, everything on the main thread --------------
N = 120
head = Future()
acc = head
chain = []
for _ in range(N):
    acc = f_flat_map(acc, lambda v: f_return(v + 1))
    chain.append(acc)
raised = None
try:
    head.set_result(0)
except BaseException as ex:  # noqa
    raised = ex
st = states(chain)
if "PENDING" in st:
    problems.append(
        "B: C03/C13 violated: after head.set_result(0) (raised: %r) links %d..%d "
        "of the %d-link f_flat_map chain are PENDING for ever"
        % (raised, st.index("PENDING"), N - 1, N)
    )
else:
    print("B: f_flat_map chain ok:", acc.result())

# --- C: f_apply with 80 pending arguments, function future resolved last -----
N = 80
fn_future = Future()
args = [Future() for _ in range(N)]
out = f_apply(fn_future, *args)
for i, a in enumerate(args):
    a.set_result(i)
fn_future.set_result(lambda *xs: sum(xs))
if not out.done():
    problems.append(
        "C: C03/C16 violated: all %d argument futures and the function future "
        "are resolved, but the f_apply output is %r" % (N, out)
    )
else:
    print("C: f_apply ok:", out.result())

print("recursion limit:", sys.getrecursionlimit())
print("log records emitted by the library meanwhile:", len(records))
if problems:
    for p in problems:
        print("VIOLATION", p)
    sys.exit(1)
print("no violation observed")
