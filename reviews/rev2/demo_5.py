import sys, os; sys.path.insert(0, os.getcwd())
# Finding 5 (borderline, see findings.md) - C18 (a fault in user code stays with
# its own future; the executor stays able to serve later submissions), C13 (an
# exception raised by fn becomes the outcome), C03 (no future is lost):
# MapFuture._delegate_resolved guards fn / error_fn with `except Exception`.
# If the map function raises an exception that derives from BaseException only
# (sys.exit() -> SystemExit, KeyboardInterrupt, pytest.fail()/pytest.skip()
# outcomes, asyncio.CancelledError on 3.8+, ...), it escapes from the
# done-callback into Future.set_result() of the DELEGATE future, i.e. into the
# delegate pool's worker (concurrent.futures.thread._WorkItem.run), which dies
# with "Exception in worker".  The mapped future stays pending for ever, and a
# pool with max_workers=1 never serves another submission (dead threads still
# count against max_workers).
# The standard library itself stores a BaseException raised by a submitted
# callable as the future's outcome (`except BaseException` in _WorkItem.run).
#
# Correct behaviour: the mapped future fails with that exception (as stdlib does
# for callables); the pool keeps working.
import logging
import threading
from concurrent.futures import ThreadPoolExecutor, TimeoutError

from more_executors import Executors

logging.getLogger("concurrent.futures").setLevel(logging.CRITICAL + 1)


class Outcome(BaseException):
    """like _pytest.outcomes.Failed / Skipped, or SystemExit"""


def check(x):
    raise Outcome("raised by the map function")


problems = []

# reference: stdlib, the callable itself raises it
std = ThreadPoolExecutor(max_workers=1)
ref = std.submit(check, 1)
print("stdlib pool, callable raises   ->", repr(ref.exception(10)))
print("stdlib pool still serves       ->", std.submit(lambda: "alive").result(10))
std.shutdown()

pool = Executors.thread_pool(max_workers=1)
ex = pool.with_map(check)
gate = threading.Event()
f = ex.submit(lambda: gate.wait(60) and 1)  # resolves later, on the worker thread
gate.set()
try:
    f.result(5)
    problems.append("unexpected: map future returned a value")
except TimeoutError:
    problems.append(
        "C13/C03: the delegate finished, fn raised %s, but the mapped future is %r "
        "(pending for ever) instead of failed with that exception" % (Outcome.__name__, f)
    )
except BaseException as exc:  # noqa
    print("with_map(fn), fn raises        ->", repr(exc))

g = pool.submit(lambda: "alive")
try:
    print("more-executors pool still serves ->", g.result(5))
except TimeoutError:
    problems.append(
        "C18: after the fault the executor cannot serve later submissions: "
        "a fresh pool.submit() stays %r (its only worker thread was killed)" % (g,)
    )

if problems:
    for line in problems:
        print("VIOLATION", line)
    sys.stdout.flush()
    os._exit(1)  # the pool is wedged; do not try to join it
print("no violation observed")
