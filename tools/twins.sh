#!/bin/bash
# vacuity self-test: with VERIF_TWIN=1 every program of every property must report 'twin-end-reached'
cd /verif
tmp=$(mktemp -d)
for i in 01 02 03 04 05 06 07 08 09 10 11 12 13 14 15 16 17 18 19 20; do
  out=$(VERIF_TWIN=1 VERIF_EVIDENCE_DIR=$tmp VERIF_REPLAY_DIR=$tmp/r ./check C$i --tier quick --no-x --budget 60 -v 2>&1)
  n=$(echo "$out" | grep -c "twin-end-reached")
  progs=$(echo "$out" | grep -c "exh ")
  echo "C$i programs=$progs twin-violations=$n"
done
rm -rf $tmp
