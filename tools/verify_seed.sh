#!/bin/bash
# usage: tools/verify_seed.sh <name> [test paths...]  — confirm a seeded change in a fresh scratch worktree:
#  demo passes on the pristine tree, fails with the patch, and the (given or whole) test suite passes with the patch.
name=$1; shift
src=/tmp/seeded/$name
wt=$(mktemp -d /tmp/vseed-XXXX)
git -C /repo worktree add -q --detach $wt HEAD || exit 2
cd $wt
echo "== $name: demo on pristine tree"; timeout 300 /venv/bin/python $src/demo.py > $wt/.demo0.log 2>&1; echo "exit=$?"
git apply $src/patch.diff || { echo "PATCH DOES NOT APPLY"; git -C /repo worktree remove --force $wt; exit 2; }
/venv/bin/python -c "import more_executors,sys; print(more_executors.__file__)"
echo "== $name: demo with patch"; timeout 300 /venv/bin/python $src/demo.py > $wt/.demo1.log 2>&1; echo "exit=$?"; tail -3 $wt/.demo1.log
echo "== $name: tests with patch"
if [ $# -gt 0 ]; then timeout 1500 /venv/bin/python -m pytest -q -p no:cacheprovider --timeout=900 "$@" 2>&1 | tail -2
else timeout 1500 /venv/bin/python -m pytest -q -p no:cacheprovider --timeout=900 2>&1 | tail -2; fi
cd /; git -C /repo worktree remove --force $wt
