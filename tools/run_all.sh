#!/bin/bash
# run every check of one tier, print a one-line summary each
tier=${1:-quick}
budget=${2:-}
cd /verif
for i in 01 02 03 04 05 06 07 08 09 10 11 12 13 14 15 16 17 18 19 20; do
  s=$(date +%s)
  if [ -n "$budget" ]; then out=$(./check C$i --tier $tier --budget $budget 2>&1); rc=$?; else out=$(./check C$i --tier $tier 2>&1); rc=$?; fi
  e=$(date +%s)
  echo "C$i rc=$rc $((e-s))s $(echo "$out" | grep "^C$i" | head -1)"
  echo "$out" | egrep "VIOLATION|INCONCLUSIVE|HARNESS|KNOWN" | head -5
done
