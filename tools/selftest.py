#!/usr/bin/env python3
"""Sensitivity self-test: apply each patch of vf/mutants/ (and seeded/*/patch.diff) to a scratch
copy of /repo's package (never to /repo itself), run the quick checks of the properties it is
expected to break with VERIF_REPO pointing at the copy, and report which checks raise VIOLATION.

usage: tools/selftest.py [--all-checks] [--tier quick] [substring ...]"""
import json
import os
import shutil
import subprocess
import sys
import tempfile

ROOT = os.path.dirname(os.path.dirname(os.path.abspath(__file__)))
EXPECT = {
    "e918bcd": ["C13"], "168950d": ["C18"], "e9a13b8": ["C11"], "76e6496": ["C07"], "19bd133": ["C19"],
    "c83c1d0": ["C17"], "6286424": ["C20"], "25682d1": ["C02", "C18"], "f7438fe": ["C12", "C20"],
    "560a9c2": ["C13"], "cc8e66b": ["C02"], "ed07526": ["C05"], "4509bc0": ["C04"], "77ff819": ["C12"], "9e56c01": ["C04"], "78fad10": ["C08", "C05"], "6059b21": ["C05"], "e283591": ["C06", "C18"], "1e9baef": ["C13", "C08"], "1a45ea6": ["C14", "C03"], "19fdddb": ["C09"], "3c6aedf": ["C02"], "66efc63": ["C06"], "f8e1570": ["C19"], "8a9e6c8": ["C01"], "0dc1a95": ["C18"], "c031272": ["C03"], "8f7f5ef": ["C03", "C02"], "be3ace6": ["C02"], "65f01d7": ["C04"], "e3bcb75": ["C07"], "3d81168": ["C10", "C11", "C04"],
}


def run(patch, props, tier):
    tmp = tempfile.mkdtemp(prefix="vf-mutant-")
    try:
        shutil.copytree("/repo/more_executors", os.path.join(tmp, "more_executors"))
        r = subprocess.run(["patch", "-p1", "-s", "-i", patch], cwd=tmp, capture_output=True, text=True)
        if r.returncode != 0:
            return {"error": "patch does not apply: " + (r.stdout + r.stderr)[-300:]}
        out = {}
        evd = os.path.join(tmp, "evidence")
        os.makedirs(evd)
        for p in props:
            env = dict(os.environ, VERIF_REPO=tmp, VERIF_EVIDENCE_DIR=evd, VERIF_REPLAY_DIR=os.path.join(tmp, "replays"))
            pr = subprocess.run([os.path.join(ROOT, "check"), p, "--tier", tier], capture_output=True, text=True, env=env, cwd=ROOT)
            viol = [l for l in pr.stdout.splitlines() if l.startswith("  violated:")]
            out[p] = {"rc": pr.returncode, "violations": [v.strip()[:220] for v in viol[:3]],
                      "summary": [l for l in pr.stdout.splitlines() if l.startswith(p)][:1]}
        return out
    finally:
        shutil.rmtree(tmp, ignore_errors=True)


def main():
    args = [a for a in sys.argv[1:] if not a.startswith("--")]
    allc = "--all-checks" in sys.argv
    tier = "thorough" if "--thorough" in sys.argv else "quick"
    patches = []
    md = os.path.join(ROOT, "vf", "mutants")
    for f in sorted(os.listdir(md)):
        if f.endswith(".diff"):
            patches.append((f[:-5], os.path.join(md, f), None))
    sd = os.path.join(ROOT, "seeded")
    if os.path.isdir(sd):
        for d in sorted(os.listdir(sd)):
            pf = os.path.join(sd, d, "patch.diff")
            if os.path.exists(pf):
                meta = {}
                try:
                    meta = json.load(open(os.path.join(sd, d, "meta.json")))
                except Exception:  # noqa
                    pass
                patches.append(("seeded/" + d, pf, meta.get("checks") or [meta.get("property", d[:3].upper())]))
    res = {}
    for name, path, props in patches:
        if args and not any(a in name for a in args):
            continue
        if props is None:
            key = name.split("_")[1] if name.startswith("revert_") else None
            props = EXPECT.get(key, [])
        if allc:
            props = ["C%02d" % i for i in range(1, 21)]
        r = run(path, props, tier)
        res[name] = r
        if "error" in r:
            print("%-60s ERROR %s" % (name, r["error"]))
            continue
        caught = [p for p, v in r.items() if v["rc"] == 1]
        print("%-60s %s  caught by: %s" % (name[:60], "CAUGHT" if caught else "MISSED", ",".join(caught) or "-"))
        for p, v in r.items():
            for l in v["violations"][:1]:
                print("      %s" % l)
            if v["rc"] not in (0, 1):
                print("      %s: rc=%s" % (p, v["rc"]))
    out = os.path.join(ROOT, "evidence", "selftest.json")
    if args:
        # a partial run updates the entries it touched
        try:
            old = json.load(open(out))
        except Exception:  # noqa
            old = {}
        old.update(res)
        res = old
    # (entries of patches that no longer exist are dropped)
    present = set(n for n, _p, _x in patches)
    res = dict((k, v) for k, v in res.items() if k in present)
    json.dump(res, open(out, "w"), indent=1)
    return 0


if __name__ == "__main__":
    sys.exit(main())
