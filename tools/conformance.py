#!/usr/bin/env python3
"""Conformance of the shim (ShimLock / ShimThread / virtual clock) against real threading.

Each program below is deterministic under real threads (threads are sequenced by joins, events or
timeouts that cannot race).  It is run once on the real `threading`/`queue`/`time` modules and once
under engine S (default schedule) and the observable results must be identical.
usage: tools/conformance.py            -> compares, exit 0 iff all equal
       tools/conformance.py --real|--shim  -> prints the results of one side as JSON"""
import json
import os
import subprocess
import sys

ROOT = os.path.dirname(os.path.dirname(os.path.abspath(__file__)))


def programs():
    import threading
    import queue
    import time
    from concurrent.futures import Future, ThreadPoolExecutor, wait, as_completed, TimeoutError as FT

    P = []

    def p_lock_basic():
        l = threading.Lock()
        out = [l.acquire(), l.locked(), l.acquire(False), l.acquire(True, 0.01)]
        l.release()
        out += [l.locked(), l.acquire(False)]
        l.release()
        try:
            l.release()
            out.append("no-error")
        except RuntimeError:
            out.append("RuntimeError")
        return out
    P.append(p_lock_basic)

    def p_rlock():
        r = threading.RLock()
        out = [r.acquire(), r.acquire(), r.acquire(False)]
        r.release(); r.release(); r.release()
        res = []

        def other():
            res.append(r.acquire(False))
            if res[-1]:
                r.release()
        with r:
            t = threading.Thread(target=other); t.start(); t.join()
        t = threading.Thread(target=other); t.start(); t.join()
        try:
            r.release()
            out.append("no-error")
        except RuntimeError:
            out.append("RuntimeError")
        return out + res
    P.append(p_rlock)

    def p_event():
        e = threading.Event()
        out = [e.is_set(), e.wait(0), e.wait(0.01)]
        e.set()
        out += [e.is_set(), e.wait(), e.wait(0)]
        e.clear()
        out += [e.is_set(), e.wait(0.01)]
        got = []

        def waiter():
            got.append(e.wait(5))
        t = threading.Thread(target=waiter); t.start()
        time.sleep(0.05)
        e.set(); t.join()
        return out + got
    P.append(p_event)

    def p_condition():
        c = threading.Condition()
        items = []
        out = []

        def consumer():
            with c:
                while not items:
                    c.wait()
                out.append(items.pop(0))
        t = threading.Thread(target=consumer); t.start()
        time.sleep(0.05)
        with c:
            items.append("x")
            c.notify()
        t.join()
        with c:
            out.append(c.wait(0.01))
            out.append(c.wait_for(lambda: True, 0.01))
            out.append(c.wait_for(lambda: False, 0.01))
        try:
            c.notify()
            out.append("no-error")
        except RuntimeError:
            out.append("RuntimeError")
        return out
    P.append(p_condition)

    def p_semaphore():
        s = threading.Semaphore(2)
        out = [s.acquire(), s.acquire(), s.acquire(False), s.acquire(timeout=0.01)]
        s.release()
        out.append(s.acquire(False))
        b = threading.BoundedSemaphore(1)
        try:
            b.release()
            out.append("no-error")
        except ValueError:
            out.append("ValueError")
        return out
    P.append(p_semaphore)

    def p_queue():
        q = queue.Queue(maxsize=2)
        q.put(1); q.put(2)
        out = [q.full(), q.qsize()]
        try:
            q.put(3, timeout=0.01)
        except queue.Full:
            out.append("Full")
        out += [q.get(), q.get()]
        try:
            q.get(timeout=0.01)
        except queue.Empty:
            out.append("Empty")
        sq = queue.SimpleQueue()
        sq.put("a"); sq.put("b")
        out += [sq.get(), sq.qsize(), sq.get(block=False)]
        try:
            sq.get(timeout=0.01)
        except queue.Empty:
            out.append("Empty")
        got = []

        def getter():
            got.append(q.get())
        t = threading.Thread(target=getter); t.start(); time.sleep(0.05); q.put("late"); t.join()
        return out + got
    P.append(p_queue)

    def p_threads():
        out = []
        t = threading.Thread(target=lambda: out.append("ran"), name="worker-x")
        out.append(t.is_alive())
        try:
            t.join()
        except RuntimeError:
            out.append("join-before-start")
        t.start(); t.join()
        out += [t.is_alive(), t.name, t.daemon]
        try:
            t.start()
        except RuntimeError:
            out.append("start-twice")
        slow = threading.Thread(target=lambda: time.sleep(0.2), daemon=True)
        slow.start(); slow.join(0.01)
        out.append(slow.is_alive())
        slow.join()
        out.append(slow.is_alive())
        return out
    P.append(p_threads)

    def p_future():
        f = Future()
        out = [f.done(), f.running(), f.cancelled()]
        try:
            f.result(0.01)
        except FT:
            out.append("timeout")
        cb = []
        f.add_done_callback(lambda x: cb.append(x.result()))
        f.set_result(5)
        out += [f.done(), f.result(), cb, f.cancel()]
        g = Future()
        out += [g.cancel(), g.cancelled(), g.set_running_or_notify_cancel()]
        h = Future()
        out.append(h.set_running_or_notify_cancel())
        out.append(h.cancel())
        h.set_exception(ValueError("x"))
        out.append(type(h.exception()).__name__)
        d, nd = wait([f, h], timeout=0.01)
        out.append(sorted(x.done() for x in d))
        out.append([x.done() for x in as_completed([f])])
        return out
    P.append(p_future)

    def p_pool():
        with ThreadPoolExecutor(max_workers=2) as ex:
            fs = [ex.submit(lambda i=i: i * i) for i in range(4)]
            out = [f.result() for f in fs]
            out.append(list(ex.map(lambda x: x + 1, [1, 2, 3])))
            g = ex.submit(lambda: 1 / 0)
            out.append(type(g.exception()).__name__)
        try:
            ex.submit(lambda: 0)
        except RuntimeError:
            out.append("refused")
        return out
    P.append(p_pool)

    def p_clock():
        t0 = time.monotonic()
        time.sleep(0.05)
        t1 = time.monotonic()
        e = threading.Event()
        e.wait(0.05)
        t2 = time.monotonic()
        return [t1 > t0, t1 - t0 >= 0.05, t2 - t1 >= 0.05, t2 - t0 < 5]
    P.append(p_clock)
    return P


def run_real():
    return [[p.__name__, p()] for p in programs()]


def run_shim():
    from vf.engine import sched
    sched.install()
    import concurrent.futures  # noqa
    sys.path.insert(0, os.environ.get("VERIF_REPO", "/repo"))
    from vf.engine import explore
    out = []
    for p in programs():
        holder = []

        def scn(ctx, p=p):
            holder.append(p())
        r = explore.run_one(scn, {}, {"P": 0, "eps_concrete": True}, [])
        if r.error or not holder:
            out.append([p.__name__, "ERROR " + str(r.error or r.deadlock)])
        else:
            out.append([p.__name__, holder[0]])
    return out


def main():
    if "--real" in sys.argv:
        print(json.dumps(run_real(), default=str))
        return 0
    if "--shim" in sys.argv:
        sys.path.insert(0, ROOT)
        res = run_shim()
        sys.stdout.write(json.dumps(res, default=str) + "\n")
        sys.stdout.flush()
        os._exit(0)
    env = dict(os.environ, PYTHONPATH=ROOT, PYTHONDONTWRITEBYTECODE="1")
    a = json.loads(subprocess.run([sys.executable, __file__, "--real"], capture_output=True, text=True, env=env).stdout)
    b = json.loads(subprocess.run([sys.executable, __file__, "--shim"], capture_output=True, text=True, env=env).stdout.strip().splitlines()[-1])
    ok = True
    for (n1, r1), (n2, r2) in zip(a, b):
        same = r1 == r2
        ok = ok and same
        print("%-14s %s" % (n1, "same" if same else "DIFFERENT\n   real: %s\n   shim: %s" % (r1, r2)))
    return 0 if ok else 1


if __name__ == "__main__":
    sys.exit(main())
