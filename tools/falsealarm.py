#!/usr/bin/env python3
"""False-alarm test: apply each behaviour-preserving refactoring of refactors/<id>/patch.diff to a
scratch copy of /repo's package and run every quick check against it: none may report a VIOLATION
(or a harness error).  usage: tools/falsealarm.py [substring ...]"""
import json
import os
import shutil
import subprocess
import sys
import tempfile

ROOT = os.path.dirname(os.path.dirname(os.path.abspath(__file__)))


def main():
    args = [a for a in sys.argv[1:] if not a.startswith("--")]
    rd = os.path.join(ROOT, "refactors")
    res = {}
    bad = 0
    for d in sorted(os.listdir(rd)):
        if args and not any(a in d for a in args):
            continue
        patch = os.path.join(rd, d, "patch.diff")
        tmp = tempfile.mkdtemp(prefix="vf-refactor-")
        try:
            shutil.copytree("/repo/more_executors", os.path.join(tmp, "more_executors"))
            r = subprocess.run(["patch", "-p1", "-s", "-i", patch], cwd=tmp, capture_output=True, text=True)
            if r.returncode != 0:
                print("%s: patch does not apply: %s" % (d, (r.stdout + r.stderr)[-300:]))
                continue
            res[d] = {}
            for i in range(1, 21):
                p = "C%02d" % i
                env = dict(os.environ, VERIF_REPO=tmp, VERIF_EVIDENCE_DIR=os.path.join(tmp, "evidence"), VERIF_REPLAY_DIR=os.path.join(tmp, "replays"))
                pr = subprocess.run([os.path.join(ROOT, "check"), p, "--tier", "quick"] + (["--budget", os.environ["VERIF_FA_BUDGET"]] if os.environ.get("VERIF_FA_BUDGET") else []), capture_output=True, text=True, env=env, cwd=ROOT)
                viol = [l.strip()[:300] for l in pr.stdout.splitlines() if l.startswith("  violated:")]
                herr = [l.strip()[:300] for l in pr.stderr.splitlines() if l.startswith("HARNESS-ERROR")]
                res[d][p] = {"rc": pr.returncode, "violations": viol[:3], "harness_errors": herr[:3]}
                status = "ok" if pr.returncode == 0 else ("FALSE ALARM" if pr.returncode == 1 else "HARNESS ERROR")
                if pr.returncode != 0:
                    bad += 1
                print("%s %s %s %s" % (d, p, status, (viol or herr or [""])[0]))
                sys.stdout.flush()
        finally:
            shutil.rmtree(tmp, ignore_errors=True)
    json.dump(res, open(os.path.join(ROOT, "evidence", "falsealarm.json"), "w"), indent=1)
    return 1 if bad else 0


if __name__ == "__main__":
    sys.exit(main())
